"""Concretize / replay for TextCompare (C04, C15)."""
import contextlib
import io
import os
import re

TOKMAPS = [
    {'a': 'a', 'b': 'b', '1': '1', '2': '2', ' ': ' ', 'R': '#RM#', 'I': '@IG@'},
    {'a': 'é', 'b': 'ü', '1': '7', '2': '٣', ' ': '\t', 'R': '«RM»', 'I': '≈IG≈'},
    # (the ignore marker of this variant reads differently as a regular expression: substrings are literal)
    {'a': 'k', 'b': 'x', '1': '0', '2': '9', ' ': '  ', 'R': ' --', 'I': '$IG$ (c)'},        # (the remove marker begins with a blank: removal looks at the line as given)
]
PATTERN = r'\d+'
NOPTS = 256
PATLISTS = [[], [1], [1, 2], [2, 1]]


def pattern(p, v):
    m = TOKMAPS[v]
    return PATTERN if p == 1 else '[%s%s]\\d+' % (m['a'], m['b'])


def line(tokens, v=0):
    m = TOKMAPS[v]
    return ''.join(m[t] for t in tokens)


def lines(text, v=0):
    return [line(l, v) for l in text]


def opt_of(n):
    return {'ls': n % 2 == 1, 'rs': (n // 2) % 2 == 1, 'isub': (n // 4) % 2 == 1, 'rem': (n // 8) % 2 == 1,
            'pats': PATLISTS[(n // 16) % 4], 'mpc': n // 64}


def kwargs_of(o, v=0):
    m = TOKMAPS[v]
    kw = {'lstrip': o['ls'], 'rstrip': o['rs'], 'max_permutation_cases': o['mpc']}
    if o['isub']:
        kw['ignore_substrings'] = [m['I']]
    if o['pats']:
        kw['ignore_patterns'] = [pattern(p, v) for p in o['pats']]
    if o['rem']:
        kw['remove_lines'] = [m['R']]
    return kw


def init_worker(repo):
    import sys
    import warnings
    warnings.filterwarnings('ignore')
    if repo not in sys.path:
        sys.path.insert(0, repo)


def replay_chunk(args):
    """rows: list of (A, E, spec bits, impl bits, dem bits); returns (n, mism, drift)."""
    rows, variant, optsel = args
    from tdda.referencetest.checkfiles import FilesComparison
    fc = FilesComparison(verbose=False)
    mism = []
    drift = []
    n = 0
    for A, E, spec, impl, dem in rows:
        la, le = lines(A, variant), lines(E, variant)
        for k in optsel:
            o = opt_of(k)
            try:
                r = fc.check_strings(list(la), list(le), create_temporaries=False, **kwargs_of(o, variant))
                got = 1 if r.failures == 0 else 0
            except Exception as ex:
                got = 'raised %s: %s' % (type(ex).__name__, str(ex)[:100])
            n += 1
            if dem[k]:
                if got != spec[k]:
                    mism.append({'A': A, 'E': E, 'opts': o, 'observed': got, 'expected': spec[k], 'variant': variant,
                                 'actual_lines': la, 'expected_lines': le})
            elif got != impl[k]:
                drift.append({'A': A, 'E': E, 'opts': o, 'observed': got, 'impl': impl[k]})
    return n, mism[:200], len(mism), drift[:20], len(drift)


class Fail(Exception):
    pass


def _assert_fn(x, msg):
    if not x:
        raise Fail(msg)


def make_ref(tmpdir):
    from tdda.referencetest.referencetest import ReferenceTest
    ReferenceTest.regenerate.clear()
    ReferenceTest.set_defaults(verbose=False, tmp_dir=tmpdir)
    return ReferenceTest(_assert_fn)


def call_entry(ref, entry, la, le, kw, workdir, nl_a=True, nl_e=True, tag='x', actual_path=None, first_pair=None):
    """Runs one assertion entry point on real files; returns ('pass'|'fail'|'error', message)."""
    def text(ls, nl):
        return '\n'.join(ls) + ('\n' if nl and ls else '')
    rp = os.path.join(workdir, 'ref_%s.txt' % tag)
    with open(rp, 'w', encoding='utf-8', newline='') as f:
        f.write(text(le, nl_e))
    try:
        with contextlib.redirect_stdout(io.StringIO()), contextlib.redirect_stderr(io.StringIO()):
            if entry == 'string':
                ref.assertStringCorrect(text(la, nl_a), rp, **kw)
            else:
                ap = actual_path or os.path.join(workdir, 'act_%s.txt' % tag)
                with open(ap, 'w', encoding='utf-8', newline='') as f:
                    f.write(text(la, nl_a))
                if sum(map(ord, tag)) % 2 == 0:
                    # both files carry the same modification time (as after unpacking an archive, cp -p, rsync -t): what the files
                    # say is what counts, not what the directory says about them
                    for p_ in (ap, rp):
                        os.utime(p_, (1000000000, 1000000000))
                if entry == 'file':
                    ref.assertTextFileCorrect(ap, rp, **kw)
                else:
                    # a list of two pairs: the pair under test and an identical pair
                    # (or a first pair given by the caller, e.g. one on which an exclusion takes effect)
                    rp2 = os.path.join(workdir, 'ref2_%s.txt' % tag)
                    with open(rp2, 'w', encoding='utf-8') as f:
                        f.write(text(first_pair[1], True) if first_pair else 'same\n')
                    ap2 = os.path.join(workdir, 'act2_%s.txt' % tag)
                    with open(ap2, 'w', encoding='utf-8') as f:
                        f.write(text(first_pair[0], True) if first_pair else 'same\n')
                    ref.assertTextFilesCorrect([ap2, ap], [rp2, rp], **kw)
        return 'pass', ''
    except Fail as e:
        return 'fail', str(e)
    except AssertionError as e:
        return 'fail', str(e)
    except Exception as e:
        return 'error', '%s: %s' % (type(e).__name__, str(e)[:200])


def identical_entry(ref, entry, ls, kw, workdir, eol='\n', final=True, tag='i'):
    """The same content on both sides (byte for byte) through one assertion entry point."""
    content = eol.join(ls) + (eol if final and ls else '')
    # (a reference named *.pdf is read as ISO-8859-1 by design: only meaningful when both sides are files)
    rp = os.path.join(workdir, 'iref_%s.%s' % (tag, 'pdf' if (entry != 'string' and sum(map(ord, tag)) % 4 == 0) else 'txt'))
    with open(rp, 'w', encoding='utf-8', newline='') as f:
        f.write(content)
    try:
        with contextlib.redirect_stdout(io.StringIO()), contextlib.redirect_stderr(io.StringIO()):
            if entry == 'string':
                ref.assertStringCorrect(content, rp, **kw)
            else:
                ap = os.path.join(workdir, 'iact_%s.txt' % tag)
                with open(ap, 'w', encoding='utf-8', newline='') as f:
                    f.write(content)
                if entry == 'file':
                    ref.assertTextFileCorrect(ap, rp, **kw)
                else:
                    ref.assertTextFilesCorrect([ap, ap], [rp, rp], **kw)
        return 'pass', ''
    except (Fail, AssertionError) as e:
        return 'fail', str(e)
    except Exception as e:
        return 'error', '%s: %s' % (type(e).__name__, str(e)[:200])
