"""
TLC invocation and output parsing.

Specs are copied to a scratch directory before each run so that nothing is written under /verif.
Rows printed by the spec with PrintT(ToJson(x)) arrive as quoted JSON strings, one per line.
"""
import json
import os
import re
import shutil
import subprocess
import threading
import time

from . import common

JAR = '/opt/veriftools/tla/tla2tools.jar'
DEPS = '/opt/veriftools/tla/CommunityModules-deps.jar'


class TLCResult:
    def __init__(self, name):
        self.name = name
        self.ok = False
        self.error = None
        self.generated = 0
        self.distinct = 0
        self.depth = 0
        self.wall = 0.0
        self.rows = []            # decoded PrintT(ToJson(..)) rows
        self.raw_prints = []      # other printed TLA+ values (strings)
        self.violated = []        # names of violated invariants / properties
        self.stdout = ''
        self.coverage = {}        # action name -> (distinct, total)
        self.cmd = ''

    def summary(self):
        return {'name': self.name, 'generated': self.generated, 'distinct': self.distinct,
                'depth': self.depth, 'wall_s': round(self.wall, 2), 'violated': self.violated,
                'rows': len(self.rows), 'cmd': self.cmd}


_RE_STATES = re.compile(r'(\d+) states generated, (\d+) distinct states found')
_RE_DEPTH = re.compile(r'The depth of the complete state graph search is (\d+)')
_RE_INV = re.compile(r'Invariant (\S+) is violated')
_RE_PROP = re.compile(r'(?:Action|Temporal) propert(?:y|ies) (\S+)? ?(?:is|were) violated')
_RE_COV = re.compile(r'^<(\w+) line \d+, col \d+ to line \d+, col \d+ of module (\w+)>: (\d+):(\d+)')


def stage(workdir, modules=None):
    """Copy spec files into workdir.

    Each file is copied under a private name and renamed into place, so that a reader of the directory
    (another thread's SANY or TLC) never sees a half-written or empty module.
    """
    os.makedirs(workdir, exist_ok=True)
    for fn in os.listdir(common.SPEC):
        if fn.endswith(('.tla', '.cfg')):
            dst = os.path.join(workdir, fn)
            part = '%s.part%d_%d' % (dst, os.getpid(), threading.get_ident())
            shutil.copy(os.path.join(common.SPEC, fn), part)
            os.replace(part, dst)
    return workdir


def run(module, cfg=None, workers=16, timeout=900, env=None, simulate=None, depth=None,
        coverage=False, continue_=False, workdir=None, cfg_text=None, name=None, deadlock=True,
        seed=None, dfs=False, heap=None, dump=None):
    """Run TLC on spec/<module>.tla with spec/<cfg> (or a generated cfg text)."""
    res = TLCResult(name or (cfg or module))
    wd = workdir or common.subdir('tlc_%s_%d' % (res.name.replace('/', '_').replace('.', '_'),
                                                 int(time.time() * 1000) % 10**9))
    stage(wd)
    if cfg_text is not None:
        cfg = '_gen_%s.cfg' % module
        with open(os.path.join(wd, cfg), 'w') as f:
            f.write(cfg_text)
    cfg = cfg or (module + '.cfg')
    meta = os.path.join(wd, 'meta')
    jopts = ['-XX:+UseParallelGC', '-Xss512m', '-Djava.io.tmpdir=' + wd]    # (TLC leaves an empty tlc-<n> directory in java.io.tmpdir)
    if heap:
        jopts.append('-Xmx' + heap)
    if dfs:
        jopts.append('-Dtlc2.tool.queue.IStateQueue=StateDeque')
    cmd = ['java'] + jopts + ['-cp', JAR + ':' + DEPS, 'tlc2.TLC',
                              '-workers', str(workers), '-metadir', meta, '-noGenerateSpecTE',
                              '-config', cfg]
    if not deadlock:
        cmd.append('-deadlock')
    if coverage:
        cmd += ['-coverage', '1']
    if continue_:
        cmd.append('-continue')
    if simulate:
        cmd += ['-simulate', simulate]
    if depth:
        cmd += ['-depth', str(depth)]
    if seed is not None:
        cmd += ['-seed', str(seed)]
    if dump:
        cmd += ['-dump', dump[0], dump[1]]
    cmd.append(module)
    res.cmd = 'tlc ' + ' '.join(cmd[cmd.index('tlc2.TLC') + 1:])
    e = dict(os.environ)
    if env:
        e.update(env)
    t0 = time.time()
    try:
        p = subprocess.run(cmd, cwd=wd, env=e, stdout=subprocess.PIPE, stderr=subprocess.STDOUT,
                           timeout=timeout)
        out = p.stdout.decode('utf8', 'replace')
        rc = p.returncode
    except subprocess.TimeoutExpired as ex:
        out = (ex.stdout or b'').decode('utf8', 'replace')
        rc = -9
        res.error = 'timeout after %ss' % timeout
        subprocess.run(['pkill', '-f', 'metadir ' + meta], check=False)
    res.wall = time.time() - t0
    res.stdout = out
    res.workdir = wd
    parse_output(res, out)
    shutil.rmtree(meta, ignore_errors=True)
    if rc == 0 and not res.violated:
        res.ok = True
    elif res.violated and rc in (12, 13, 0, 151):
        res.ok = True   # the run itself worked; the caller decides what a violation means
    elif res.error is None:
        tail = '\n'.join(out.strip().splitlines()[-15:])
        res.error = 'exit %s\n%s' % (rc, tail)
    res.rc = rc
    return res


def parse_output(res, out):
    for line in out.splitlines():
        s = line.strip()
        if s.startswith('"') and s.endswith('"'):
            try:
                inner = json.loads(s)
            except ValueError:
                continue
            if inner[:1] in '{[':
                try:
                    res.rows.append(json.loads(inner))
                    continue
                except ValueError:
                    pass
            res.raw_prints.append(inner)
            continue
        m = _RE_STATES.search(s)
        if m:
            res.generated = int(m.group(1))
            res.distinct = int(m.group(2))
            continue
        m = _RE_DEPTH.search(s)
        if m:
            res.depth = int(m.group(1))
            continue
        m = _RE_INV.search(s)
        if m:
            res.violated.append(m.group(1))
            continue
        m = re.search(r'The invariant of (\S+) is equal to FALSE', s)
        if m:
            # an invariant that mentions no variable is evaluated once, before the search (exit status 151)
            res.violated.append(m.group(1))
            continue
        if 'is violated' in s or 'was violated' in s:
            res.violated.append(s)
            continue
        m = _RE_COV.match(s)
        if m:
            res.coverage[m.group(1)] = (int(m.group(3)), int(m.group(4)))


TLAPS_LIB = '/opt/veriftools/tlapm/lib/tlapm/stdlib'


def sany(module, workdir=None, staged=False):
    wd = workdir or common.subdir('sany')
    if not staged:
        stage(wd)
    # proof modules extend TLAPS, which lives in the proof system's library, not on TLC's class path
    lib = []
    if module.endswith('_proofs') and os.path.isdir(TLAPS_LIB):
        lib = ['-DTLA-Library=' + TLAPS_LIB]
    p = subprocess.run(['java'] + lib + ['-cp', JAR + ':' + DEPS, 'tla2sany.SANY', module + '.tla'], cwd=wd,
                       stdout=subprocess.PIPE, stderr=subprocess.STDOUT)
    out = p.stdout.decode('utf8', 'replace')
    ok = p.returncode == 0 and 'Semantic errors' not in out and 'Parse Error' not in out \
        and '*** Errors' not in out
    return ok, out
