"""
Recorded discover -> serialise -> verify/detect sessions on rich frames (C01; reused by C09 and C17).
"""
import datetime
import json
import os

import numpy as np
import pandas as pd

from . import constraints_lib as cl

TEXT_POOL = ['', 'a', 'abc', 'ABC', 'a b', ' lead', 'trail ', 'tab\there', 'new\nline', "quo'te", 'dq"uote', 'back\\slash',
             'é', 'ü', 'ñandú', '☃', '\U0001F600', 'x\U0001F600y', '中文', 'ß', 'ǅ', '٣', '²', 'a.b', 'a-b', 'a_b',
             '12', '007', '1.5', '-3', '+', '^', '$', '.*', '[x]', '(y)', '{z}', 'a|b', '?', '*', '#', '%',
             'row{2}', 'item{10}', 'a{3}', 'CamelCase', 'snake_case', 'kebab-case', 'x' * 40, ' ', ' ', 'NULL', 'None', 'nan', 'true']

FIELD_NAMES = ['a', 'B', 'col 1', 'naïve', 'x.y', 'f-1', '1', 'select', "it's", 'dq"', 'uni☃', 'n_failures',
               'Index', 'a_min_ok', 'id', 'cafe\u0301', 'e\u0301te\u0301', '\ufeffid', ' id', 'amount ', 'note\t']      # (also names with blanks at their ends)


def rich_series(rnd, n, kind=None):
    """A column of a recognised type; returns (series, kind label)."""
    kinds = ['int64', 'uint8', 'Int64', 'float64', 'float32', 'float_special', 'Float64', 'bool', 'boolean', 'objbool',
             'object_str', 'category', 'dt_ns', 'dt_s', 'dt_ms', 'dt_us', 'dt_tz', 'dateobj', 'int_extreme',
             'allnull_float', 'allnull_obj', 'many_cats', 'longtext']
    kind = kind or rnd.choice(kinds)
    nullp = rnd.choice([0.0, 0.0, 0.2, 0.6])

    def mask(vals, null):
        return [null if rnd.random() < nullp else v for v in vals]
    if kind == 'int64':
        return pd.Series([rnd.randint(-50, 50) for _ in range(n)], dtype='int64'), kind
    if kind == 'uint8':
        return pd.Series([rnd.randint(0, 255) for _ in range(n)], dtype='uint8'), kind
    if kind == 'Int64':
        return pd.Series(mask([rnd.randint(-5, 5) for _ in range(n)], pd.NA), dtype='Int64'), kind
    if kind == 'int_extreme':
        pool = [-2**63, 2**63 - 1, 0, 1, -1, 2**53, 2**53 + 1, -2**53 - 1]
        return pd.Series([rnd.choice(pool) for _ in range(n)], dtype='int64'), kind
    if kind == 'float64':
        return pd.Series(mask([rnd.choice([-2.5, -1.0, 0.0, 0.5, 1.0, 3.25, 1e-9, 123456.789,
                                                  # values whose shortest exact text needs 16-17 significant digits
                                                  0.1 + 0.2, -0.7999999999999999, 1 / 3, 2 / 3 * 1e9]) for _ in range(n)], np.nan),
                         dtype='float64'), kind
    if kind == 'float32':
        # single precision: the values of the column are what float32 holds (0.1f is not 0.1)
        return pd.Series(mask([rnd.choice([0.1, 2.3, -7.7, 1e-3, 3.0, 1 / 3]) for _ in range(n)], np.nan), dtype='float32'), kind
    if kind == 'float_special':
        pool = [np.inf, -np.inf, 1e308, -1e308, 5e-324, 0.0, -0.0, 1.0, np.nan]
        return pd.Series([rnd.choice(pool) for _ in range(n)], dtype='float64'), kind
    if kind == 'Float64':
        return pd.Series(mask([rnd.choice([-1.5, 0.0, 2.0, 7.75]) for _ in range(n)], pd.NA), dtype='Float64'), kind
    if kind == 'bool':
        return pd.Series([rnd.random() < 0.5 for _ in range(n)], dtype=bool), kind
    if kind == 'boolean':
        return pd.Series(mask([rnd.random() < 0.5 for _ in range(n)], pd.NA), dtype='boolean'), kind
    if kind == 'objbool':
        vals = mask([rnd.random() < 0.5 for _ in range(n)], None)
        if vals and all(v is None for v in vals):
            vals[0] = True
        return pd.Series(vals, dtype=object), kind
    if kind in ('object_str', 'category'):
        k = rnd.randint(1, 8)
        pool = rnd.sample(TEXT_POOL, k)
        vals = mask([rnd.choice(pool) for _ in range(n)], None)
        s = pd.Series(vals, dtype=object)
        if kind == 'category':
            if not any(v is not None for v in vals):
                return s, 'object_str'
            s = s.astype('category')
            if rnd.random() < 0.4:
                # categories declared up front, or left behind by a filter, that no row uses
                s = s.cat.add_categories(['unused category', 'zz9'])
        return s, kind
    if kind == 'longtext':
        # free text of 50+ words (rexpy gives up on the shape and describes the length), some of it over several lines
        words = ['alpha', 'beta', 'gamma', 'delta', 'x1', 'y-2', 'z.', 'été']
        def para(nl):
            ws = [rnd.choice(words) for _ in range(rnd.randint(55, 70))]
            return (' '.join(ws[:20]) + ('\n' if nl else ' ') + ' '.join(ws[20:]))
        pool = [para(False), para(True), para(True)]
        vals = mask([rnd.choice(pool) for _ in range(n)], None)
        return pd.Series(vals, dtype=object), kind
    if kind == 'many_cats':
        k = rnd.randint(18, 26)
        pool = ['cat%02d' % i for i in range(k)]
        vals = pool + [rnd.choice(pool) for _ in range(max(0, n - k))]
        return pd.Series(vals[:max(n, k)] if n >= k else vals[:n], dtype=object), kind
    if kind.startswith('dt_') or kind == 'dateobj':
        base = [pd.Timestamp('2000-02-29 12:34:56'), pd.Timestamp('1969-12-31 23:59:59'), pd.Timestamp('2038-01-19 03:14:08'),
                pd.Timestamp('2020-01-01'), pd.Timestamp('2020-06-15 06:07:08.123456')]
        # sub-second values: fractions whose decimal text is awkward in binary floating point, and random ones
        for us in (249, 489, 1001, 999999, 1, 500000, rnd.randrange(10**6), rnd.randrange(10**6)):
            base.append(pd.Timestamp(year=rnd.randint(1950, 2090), month=rnd.randint(1, 12), day=rnd.randint(1, 28),
                                     hour=rnd.randint(0, 23), minute=rnd.randint(0, 59), second=rnd.randint(0, 59), microsecond=us))
        vals = mask([rnd.choice(base) for _ in range(n)], pd.NaT)
        if kind == 'dateobj':
            vv = [None if v is pd.NaT else v.date() for v in vals]
            if vv and rnd.random() < 0.4:
                # dates far outside what nanosecond timestamps can hold
                vv[rnd.randrange(len(vv))] = rnd.choice([datetime.date(9999, 12, 31), datetime.date(1, 1, 1), datetime.date(2500, 6, 30)])
            if vv and all(v is None for v in vv):
                vv[0] = datetime.date(2020, 1, 1)
            return pd.Series(vv, dtype=object), kind
        s = pd.Series(pd.to_datetime(vals))
        if kind == 'dt_tz':
            return (s.dt.tz_localize('UTC') if n else pd.Series(pd.DatetimeIndex([], tz='UTC'))), kind
        unit = kind.split('_')[1]
        return s.astype('datetime64[%s]' % unit), kind
    if kind == 'allnull_float':
        return pd.Series([np.nan] * n, dtype='float64'), kind
    if kind == 'allnull_obj':
        return pd.Series([None] * n, dtype=object), kind
    raise ValueError(kind)


def rich_frame(rnd):
    n = rnd.choice([0, 0, 1, 2, 3, 5, 8, 13, 30])
    ncols = rnd.randint(1, 3)
    names = rnd.sample(FIELD_NAMES, ncols)
    if ncols >= 2 and rnd.random() < 0.2:
        # two fields whose names differ only in case (and hold different data)
        a, b = rnd.choice([('ID', 'id'), ('Été', 'été'), ('Total', 'TOTAL'), ('b', 'B')])
        names[0], names[1] = a, b
        names = list(dict.fromkeys(names))
    data = {}
    kinds = {}
    for nm in names:
        s, k = rich_series(rnd, n)
        if len(s) != n:          # many_cats may be longer than n: make the frame that long
            n2 = len(s)
            for other in list(data):
                s2, k2 = rich_series(rnd, n2, kinds[other])
                data[other] = s2
            n = n2
        data[nm] = s.reset_index(drop=True)
        kinds[nm] = k
    # equalise lengths
    m = max((len(s) for s in data.values()), default=0)
    for nm in list(data):
        if len(data[nm]) != m:
            s, k = rich_series(rnd, m, kinds[nm])
            data[nm] = s.reset_index(drop=True)[:m]
    return pd.DataFrame(data), kinds


def failing_pairs(v, kinds):
    out = []
    for name, fv in v.fields.items():
        for k in fv:
            if fv[k] is not None and not bool(fv[k]):
                out.append('%s:%s' % (kinds.get(name, '?'), k))
    return sorted(out)


def one_session(rnd, tid, root, df=None, kinds=None, copy=True):
    """Returns (events, info) for one discover/serialise/verify-or-detect session.
    copy=False: the caller's frame object itself is handed to every call (a frame that lives on between sessions)."""
    from tdda.constraints import discover_df, verify_df, detect_df
    if df is None:
        df, kinds = rich_frame(rnd)
    rex = rnd.random() < 0.5
    path = rnd.choice(['dict', 'file'])
    events = [{'tid': tid, 'ev': 'Init'}]
    info = {'kinds': kinds, 'nrows': len(df), 'rex': rex, 'path': path, 'frame': df.head(6).to_dict(orient='list'), 'same_object': not copy}
    given = (lambda: df.copy()) if copy else (lambda: df)

    def ev(name, **kw):
        e = {'tid': tid, 'ev': name, 'raised': 'none'}
        e.update(kw)
        events.append(e)
        return e
    try:
        with cl.quiet():
            cs = discover_df(given(), inc_rex=rex)
        ev('Discover', rex=rex)
    except Exception as ex:
        ev('Discover', rex=rex, raised='%s: %s' % (type(ex).__name__, str(ex)[:160]))
        return events, info
    if cs is None:
        info['nothing_discovered'] = True
        return events[:1], info
    if rex:
        try:
            fd = cs.to_dict()['fields']
            info['rexes'] = {f: list(v.get('rex', [])) for f, v in fd.items() if 'rex' in v}
            info['strings'] = {f: [x for x in df[f].dropna().unique().tolist() if isinstance(x, str)] for f in info['rexes']}
        except Exception:
            pass
    try:
        if path == 'dict':
            src = cs.to_dict()
            ev('ToDict')
        else:
            text = cs.to_json()
            ev('ToJson')
            p = os.path.join(root, 'c%d.tdda' % tid)
            with open(p, 'w', encoding='utf-8') as f:
                f.write(text)
            ev('WriteFile')
            src = p
    except Exception as ex:
        ev('ToDict' if path == 'dict' else 'ToJson', raised='%s: %s' % (type(ex).__name__, str(ex)[:160]))
        return events, info
    for _ in range(rnd.randint(1, 3)):
        op = rnd.choice(['verify', 'detect'])
        repair = rnd.random() < 0.5
        e = {'op': op, 'repair': repair, 'failures': 0, 'failrecs': 0}
        try:
            with cl.quiet():
                if op == 'verify':
                    v = verify_df(given(), src, repair=repair)
                else:
                    v = detect_df(given(), src, repair=repair, per_constraint=True, output_fields=[])
            e['failures'] = int(v.failures)
            e['failed'] = failing_pairs(v, kinds)
            if op == 'detect' and v.detection is not None:
                e['failrecs'] = int(v.detection.n_failing_records)
            ev('Run', **e)
        except Exception as ex:
            ev('Run', raised='%s: %s' % (type(ex).__name__, str(ex)[:160]), **e)
    return events, info


def change_in_place(rnd, df, kinds):
    """New values of the same kinds assigned to the columns of the SAME frame object (what a notebook user does between two
    looks at a frame); returns False if the kinds cannot be redrawn at this length."""
    n = len(df)
    for nm in list(df.columns):
        s, k = rich_series(rnd, n, kinds[nm])
        if len(s) != n:
            return False
        df[nm] = s.reset_index(drop=True).values if False else s.reset_index(drop=True)
    return True
