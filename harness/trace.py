"""Batched trace validation: events -> NDJSON -> TLC trace spec -> rejected lines."""
import json
import os

from . import common, tlc


def validate(module, cfg, events, name=None, timeout=900, workers=1, heap=None):
    """Writes events (list of dicts, no None / float anywhere) as NDJSON, runs the trace spec,
    returns (result, rejected) where rejected = list of {'line', 'tid', 'bad'} rows.
    The result is marked failed unless TLC reports that every line was consumed."""
    wd = common.subdir('trace_%s_%s' % (module, name or 'x'))
    path = os.path.join(wd, 'trace.ndjson')
    with open(path, 'w') as f:
        for e in events:
            _check_json(e)
            f.write(json.dumps(e, ensure_ascii=True) + '\n')
    res = tlc.run(module, cfg, workers=workers, timeout=timeout, env={'TRACE_FILE': path},
                  workdir=wd, name=name or module, heap=heap)
    rejected = [r for r in res.rows if 'bad' in r]
    done = [r for r in res.rows if 'consumed' in r]
    if res.ok and (not done or done[-1]['consumed'] != len(events) or done[-1]['lines'] != len(events)):
        res.ok = False
        res.error = 'trace not fully consumed: %r of %d lines' % (done[-1:] or None, len(events))
    return res, rejected


def _check_json(x, path='$'):
    if x is None:
        raise ValueError('None in trace event at %s (Json module cannot read null)' % path)
    if isinstance(x, float):
        raise ValueError('float in trace event at %s (Json module truncates floats)' % path)
    if isinstance(x, bool):
        return
    if isinstance(x, int):
        if abs(x) >= 2**31:
            raise ValueError('integer out of 32-bit range at %s' % path)
        return
    if isinstance(x, dict):
        for k, v in x.items():
            _check_json(v, path + '.' + k)
    elif isinstance(x, (list, tuple)):
        for i, v in enumerate(x):
            _check_json(v, '%s[%d]' % (path, i))
