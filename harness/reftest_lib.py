"""
Concretize / abstract functions for the reference-test modules (Argv, RefTest).
Imports tdda from the working tree (sys.path is prepared by bin/check).
"""
import contextlib
import os
import io
import sys
import types
import unittest


def tok2str(atoms):
    return ''.join(atoms)


def str2tok(s):
    """Inverse of tok2str for the vocabulary used by the drivers."""
    if s.startswith('--'):
        return ['-', '-', s[2:]]
    if s.startswith('-'):
        return ['-'] + list(s[1:])
    out = []
    for i, part in enumerate(s.split(',')):
        if i:
            out.append(',')
        if part:
            out.append(part)
    return out


def reset_reftest_state():
    from tdda.referencetest.referencetest import ReferenceTest
    ReferenceTest.regenerate.clear()
    ReferenceTest.verbose = True
    # subclasses may shadow 'verbose' after set_defaults on the subclass
    from tdda.referencetest.referencetestcase import ReferenceTestCase
    if 'verbose' in ReferenceTestCase.__dict__:
        try:
            delattr(ReferenceTestCase, 'verbose')
        except AttributeError:
            pass


def real_flags(argv_strs):
    """Run the real _set_flags_from_argv on a copy of argv; returns the abstract result."""
    from tdda.referencetest import referencetestcase as rtc
    from tdda.referencetest.referencetest import ReferenceTest
    reset_reftest_state()
    argv = list(argv_strs)
    try:
        out, tagged, check = rtc._set_flags_from_argv(argv)
        raised = False
    except Exception as e:        # bare '--write' raises Exception
        out, tagged, check, raised = [], False, False, type(e).__name__
    table = dict(ReferenceTest.regenerate)
    res = {
        'argv': [str2tok(a) for a in out],
        'argv_strs': list(out),
        'tagged': bool(tagged), 'check': bool(check),
        'regen': table.get(None, False) is True,
        'kinds': sorted(k for k, v in table.items() if k is not None and v),
        'quiet': rtc.ReferenceTestCase.verbose is False,
        'raised': bool(raised),
    }
    reset_reftest_state()
    return res


def same_flags(real, model):
    """Python image of SameFlags (argv compared from index 1)."""
    if real['raised'] != model['raised']:
        return False
    if real['raised']:
        return True
    if len(real['argv']) < 1 or len(model['argv']) < 1:
        return False
    if [tok2str(t) for t in real['argv'][1:]] != [tok2str(t) for t in model['argv'][1:]]:
        return False
    mk = sorted(tok2str(k) for k in model['kinds'])
    return (real['regen'] == model['regen'] and real['check'] == model['check']
            and (real['check'] or real['tagged'] == model['tagged']) and real['quiet'] == model['quiet']
            and real['kinds'] == mk)


# ------------------------------------------------------------------------------------------
# test modules for C19

def build_module(structure, log, modname='verifmod', base='tdda'):
    """structure: list of {'cls', 'ctag', 'tests': [{'name','mtag'}], 'parent': optional cls}.
    Returns a module object whose tests append (cls, name) to log."""
    from tdda.referencetest import ReferenceTestCase, tag
    mod = types.ModuleType(modname)
    mod.__dict__['__name__'] = modname
    made = {}
    pending = list(structure)
    # parents first
    order = []
    while pending:
        progressed = False
        for c in list(pending):
            if not c.get('parent') or c['parent'] in [o['cls'] for o in order]:
                order.append(c)
                pending.remove(c)
                progressed = True
        if not progressed:
            raise ValueError('inheritance cycle')
    for c in order:
        # a class may be a plain unittest.TestCase that only borrows the @tag decorator ('plain': True)
        parent = made[c['parent']] if c.get('parent') else (
            ReferenceTestCase if (base == 'tdda' and not c.get('plain')) else unittest.TestCase)
        ns = {'__module__': modname}
        for t in c['tests']:
            def make(tname):
                def test(self):
                    log.append((type(self).__name__, tname))
                test.__name__ = tname
                return test
            fn = make(t['name'])
            if t['mtag'] and base == 'tdda':
                fn = tag(fn)
            ns[t['name']] = fn
        cls = type(c['cls'], (parent,), ns)
        if c['ctag'] and base == 'tdda':
            cls = tag(cls)
        made[c['cls']] = cls
        setattr(mod, c['cls'], cls)
    sys.modules[modname] = mod
    return mod


def run_tdda_main(structure, argv_strs):
    """Run ReferenceTestCase.main on a freshly built module. Returns dict(executed, listed, error)."""
    from tdda.referencetest import ReferenceTestCase
    log = []
    mod = build_module(structure, log)
    out = io.StringIO()
    err = None
    reset_reftest_state()
    runner = unittest.TextTestRunner(stream=io.StringIO(), verbosity=0)
    try:
        with contextlib.redirect_stdout(out), contextlib.redirect_stderr(io.StringIO()):
            ReferenceTestCase.main(module=mod, argv=list(argv_strs), exit=False, testRunner=runner)
    except SystemExit as e:
        err = 'SystemExit(%s)' % (e.code,)
    except Exception as e:
        err = '%s: %s' % (type(e).__name__, e)
    finally:
        reset_reftest_state()
        sys.modules.pop('verifmod', None)
    listed = []
    for line in out.getvalue().splitlines():
        line = line.strip()
        if line.startswith('verifmod.'):
            listed.append(line[len('verifmod.'):])
    return {'executed': log, 'listed': listed, 'error': err}


def run_stock_unittest(structure, argv_strs):
    """The usual meaning: stock unittest on the same module (plain TestCase classes)."""
    log = []
    mod = build_module(structure, log, base='unittest')
    err = None
    runner = unittest.TextTestRunner(stream=io.StringIO(), verbosity=0)
    try:
        with contextlib.redirect_stdout(io.StringIO()), contextlib.redirect_stderr(io.StringIO()):
            unittest.main(module=mod, argv=list(argv_strs), exit=False, testRunner=runner)
    except SystemExit as e:
        err = 'SystemExit(%s)' % (e.code,)
    finally:
        sys.modules.pop('verifmod', None)
    return {'executed': log, 'error': err}


def write_tdda_script(path, structure, hook=False):
    """The module as a real script that ends in ReferenceTestCase.main() (the entry point people use: __main__, no module=).
    hook: the module also has a load_tests() hook that adds ONE instance of a class-tagged class whose method does not carry
    the test prefix (a parametrised scenario test); that class is appended to the structure the caller judges by."""
    lines = ['import os', 'import sys', 'import unittest', 'from tdda.referencetest import ReferenceTestCase, tag', '',
             'def _log(x):', "    with open(os.environ['VERIF_PYLOG'], 'a') as f:", "        f.write(x + '\\n')", '']
    for c in structure:
        if c['ctag']:
            lines.append('@tag')
        parent = c['parent'] if c.get('parent') else ('unittest.TestCase' if c.get('plain') else 'ReferenceTestCase')
        lines.append('class %s(%s):' % (c['cls'], parent))
        if not c['tests']:
            lines.append('    pass')
        for t in c['tests']:
            if t['mtag']:
                lines.append('    @tag')
            lines.append('    def %s(self):' % t['name'])
            lines.append("        _log(type(self).__name__ + ' %s')" % t['name'])
        lines.append('')
    if hook:
        lines += ['@tag', 'class ScenarioTest(ReferenceTestCase):', '    def __init__(self, scenario="x"):', "        super().__init__('check')",
                  '        self.scenario = scenario', '    def check(self):', "        _log('ScenarioTest check')", '',
                  'def load_tests(loader, tests, pattern):', "    tests.addTest(ScenarioTest('x'))", '    return tests', '']
    lines += ["if __name__ == '__main__':", '    ReferenceTestCase.main()']
    with open(path, 'w') as f:
        f.write('\n'.join(lines) + '\n')


def run_tdda_script(wd, structure, argv_strs, hook=False, timeout=120):
    """python script.py <argv>: returns dict(executed, listed, error)."""
    import subprocess
    from . import common
    os.makedirs(wd, exist_ok=True)
    script = os.path.join(wd, 'run_me.py')
    write_tdda_script(script, structure, hook)
    log = os.path.join(wd, 'executed.log')
    if os.path.exists(log):
        os.remove(log)
    env = common.child_env({'VERIF_PYLOG': log})
    p = subprocess.run([common.PY, '-W', 'ignore', script] + list(argv_strs[1:]), cwd=wd, env=env, stdout=subprocess.PIPE,
                       stderr=subprocess.PIPE, text=True, timeout=timeout)
    executed = []
    if os.path.exists(log):
        executed = [tuple(ln.split(' ')) for ln in open(log).read().split('\n') if ln]
    listed = [ln.strip()[len('__main__.'):] for ln in p.stdout.splitlines() if ln.strip().startswith('__main__.')]
    err = None
    if p.returncode not in (0, 5):          # 5: unittest's status for "no tests ran"
        err = 'exit %d: %s' % (p.returncode, (p.stderr or p.stdout)[-300:])
    return {'executed': executed, 'listed': listed, 'error': err}
