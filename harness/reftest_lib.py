"""
Concretize / abstract functions for the reference-test modules (Argv, RefTest).
Imports tdda from the working tree (sys.path is prepared by bin/check).
"""
import contextlib
import io
import sys
import types
import unittest


def tok2str(atoms):
    return ''.join(atoms)


def str2tok(s):
    """Inverse of tok2str for the vocabulary used by the drivers."""
    if s.startswith('--'):
        return ['-', '-', s[2:]]
    if s.startswith('-'):
        return ['-'] + list(s[1:])
    out = []
    for i, part in enumerate(s.split(',')):
        if i:
            out.append(',')
        if part:
            out.append(part)
    return out


def reset_reftest_state():
    from tdda.referencetest.referencetest import ReferenceTest
    ReferenceTest.regenerate.clear()
    ReferenceTest.verbose = True
    # subclasses may shadow 'verbose' after set_defaults on the subclass
    from tdda.referencetest.referencetestcase import ReferenceTestCase
    if 'verbose' in ReferenceTestCase.__dict__:
        try:
            delattr(ReferenceTestCase, 'verbose')
        except AttributeError:
            pass


def real_flags(argv_strs):
    """Run the real _set_flags_from_argv on a copy of argv; returns the abstract result."""
    from tdda.referencetest import referencetestcase as rtc
    from tdda.referencetest.referencetest import ReferenceTest
    reset_reftest_state()
    argv = list(argv_strs)
    try:
        out, tagged, check = rtc._set_flags_from_argv(argv)
        raised = False
    except Exception as e:        # bare '--write' raises Exception
        out, tagged, check, raised = [], False, False, type(e).__name__
    table = dict(ReferenceTest.regenerate)
    res = {
        'argv': [str2tok(a) for a in out],
        'argv_strs': list(out),
        'tagged': bool(tagged), 'check': bool(check),
        'regen': table.get(None, False) is True,
        'kinds': sorted(k for k, v in table.items() if k is not None and v),
        'quiet': rtc.ReferenceTestCase.verbose is False,
        'raised': bool(raised),
    }
    reset_reftest_state()
    return res


def same_flags(real, model):
    """Python image of SameFlags (argv compared from index 1)."""
    if real['raised'] != model['raised']:
        return False
    if real['raised']:
        return True
    if len(real['argv']) < 1 or len(model['argv']) < 1:
        return False
    if [tok2str(t) for t in real['argv'][1:]] != [tok2str(t) for t in model['argv'][1:]]:
        return False
    mk = sorted(tok2str(k) for k in model['kinds'])
    return (real['regen'] == model['regen'] and real['check'] == model['check']
            and (real['check'] or real['tagged'] == model['tagged']) and real['quiet'] == model['quiet']
            and real['kinds'] == mk)


# ------------------------------------------------------------------------------------------
# test modules for C19

def build_module(structure, log, modname='verifmod', base='tdda'):
    """structure: list of {'cls', 'ctag', 'tests': [{'name','mtag'}], 'parent': optional cls}.
    Returns a module object whose tests append (cls, name) to log."""
    from tdda.referencetest import ReferenceTestCase, tag
    mod = types.ModuleType(modname)
    mod.__dict__['__name__'] = modname
    made = {}
    pending = list(structure)
    # parents first
    order = []
    while pending:
        progressed = False
        for c in list(pending):
            if not c.get('parent') or c['parent'] in [o['cls'] for o in order]:
                order.append(c)
                pending.remove(c)
                progressed = True
        if not progressed:
            raise ValueError('inheritance cycle')
    for c in order:
        # a class may be a plain unittest.TestCase that only borrows the @tag decorator ('plain': True)
        parent = made[c['parent']] if c.get('parent') else (
            ReferenceTestCase if (base == 'tdda' and not c.get('plain')) else unittest.TestCase)
        ns = {'__module__': modname}
        for t in c['tests']:
            def make(tname):
                def test(self):
                    log.append((type(self).__name__, tname))
                test.__name__ = tname
                return test
            fn = make(t['name'])
            if t['mtag'] and base == 'tdda':
                fn = tag(fn)
            ns[t['name']] = fn
        cls = type(c['cls'], (parent,), ns)
        if c['ctag'] and base == 'tdda':
            cls = tag(cls)
        made[c['cls']] = cls
        setattr(mod, c['cls'], cls)
    sys.modules[modname] = mod
    return mod


def run_tdda_main(structure, argv_strs):
    """Run ReferenceTestCase.main on a freshly built module. Returns dict(executed, listed, error)."""
    from tdda.referencetest import ReferenceTestCase
    log = []
    mod = build_module(structure, log)
    out = io.StringIO()
    err = None
    reset_reftest_state()
    runner = unittest.TextTestRunner(stream=io.StringIO(), verbosity=0)
    try:
        with contextlib.redirect_stdout(out), contextlib.redirect_stderr(io.StringIO()):
            ReferenceTestCase.main(module=mod, argv=list(argv_strs), exit=False, testRunner=runner)
    except SystemExit as e:
        err = 'SystemExit(%s)' % (e.code,)
    except Exception as e:
        err = '%s: %s' % (type(e).__name__, e)
    finally:
        reset_reftest_state()
        sys.modules.pop('verifmod', None)
    listed = []
    for line in out.getvalue().splitlines():
        line = line.strip()
        if line.startswith('verifmod.'):
            listed.append(line[len('verifmod.'):])
    return {'executed': log, 'listed': listed, 'error': err}


def run_stock_unittest(structure, argv_strs):
    """The usual meaning: stock unittest on the same module (plain TestCase classes)."""
    log = []
    mod = build_module(structure, log, base='unittest')
    err = None
    runner = unittest.TextTestRunner(stream=io.StringIO(), verbosity=0)
    try:
        with contextlib.redirect_stdout(io.StringIO()), contextlib.redirect_stderr(io.StringIO()):
            unittest.main(module=mod, argv=list(argv_strs), exit=False, testRunner=runner)
    except SystemExit as e:
        err = 'SystemExit(%s)' % (e.code,)
    finally:
        sys.modules.pop('verifmod', None)
    return {'executed': log, 'error': err}
