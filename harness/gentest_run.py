"""Drives real gentest sessions and turns them into Trace_Gentest events (shared by C11 and C12)."""
import copy
import json
import os
import py_compile
import random
import re
import shutil
from concurrent.futures import ThreadPoolExecutor

from . import common, tlc, trace
from . import gentest_lib as gl


def abstract_fs(case, ids):
    """Projects the working directory onto the model's paths with content ids."""
    wd = case['wd']
    snap = gl.snapshot(wd)

    def cid(rel):
        if rel not in snap:
            return 'absent'
        return ids.setdefault(snap[rel], 'c%d' % len(ids))
    fs = {}
    smap = gl.script_map(case)
    for k, name in case['names'].items():
        refname = (gl.lookup(smap, name) or {}).get('ref', os.path.basename(name))
        if name.startswith('$TMPDIR/') or name.startswith('~'):
            # lives in a temporary directory (or outside the working directory) that changes from run to run: not observed (the model's value is assumed)
            fs[k] = case.get('assumed', {}).get(k, 'absent')
            fs['ref:' + k] = cid(os.path.join('ref', 'job', refname))
            continue
        fs[k] = cid(name)
        fs['ref:' + k] = cid(os.path.join('ref', 'job', refname))
    fs['in1'] = cid('keepme.cfg')
    fs['in2'] = cid(os.path.join('sub', 'nested.dat'))
    fs['script'] = 'script-text' if 'test_job.py' in snap and snap['test_job.py'] != case.get('stale_script_sha') else cid('test_job.py')
    fs['ref:STDOUT'] = cid(os.path.join('ref', 'job', 'STDOUT'))
    fs['ref:STDERR'] = cid(os.path.join('ref', 'job', 'STDERR'))
    # anything else that changed is reported separately
    return fs, snap


def beh_abstract(case, beh, ids):
    def tid_(s):
        import hashlib
        h = hashlib.sha1(s if isinstance(s, bytes) else s.encode('utf-8')).hexdigest()
        return ids.setdefault(h, 'c%d' % len(ids))
    files = {}
    for k, name in case['names'].items():
        spec = beh['files'].get(name)
        if spec is None:
            files[k] = 'absent'
        elif spec['kind'] == 'text':
            files[k] = tid_(spec['text'].encode(spec.get('encoding', 'utf-8')))
        else:
            files[k] = tid_(bytes(spec['bytes']))
    return {'files': files, 'STDOUT': tid_(beh['stdout']), 'STDERR': tid_(beh['stderr']), 'exit': beh['exit']}


def verdicts(case, res):
    """Model targets -> observed verdict."""
    v = {}
    tmap = gl.script_test_map(case)
    for k, name in case['names'].items():
        v[k] = res.get(gl.lookup(tmap, name, gl.test_name_for(name)), 'missing')
    if not case['no_stdout']:
        v['STDOUT'] = res.get('test_stdout', 'missing')
    if not case['no_stderr']:
        v['STDERR'] = res.get('test_stderr', 'missing')
    v['exit'] = res.get('test_exit_code', 'missing')
    return v


def one_session(args):
    """Runs generation (+ test run, + perturbations) for one case; returns (events, detail)."""
    seed, tid, root, shape, nperturb = args
    rnd = random.Random(seed)
    wd = os.path.join(root, 'w%d' % tid)
    dated = gl.FAR_DATES[(tid // 3) % len(gl.FAR_DATES)] if (nperturb and tid % 3 == 0) else None
    case = gl.make_case(rnd, wd, shape, tmpdir_tokens_with_one_iteration=(nperturb == 0), dated_first_line=dated, hint=tid)
    ids = {}
    events = []
    detail = {'tid': tid, 'shape': shape, 'names': case['names'], 'command_arguments': case.get('cmd_args', ''), 'earlier_generation_in_same_process': case.get('prelim', False), 'flags': case['flags'], 'refs': case['refs'], 'pre': case['pre'], 'script': case['script'],
              'behaviour': case['beh'], 'wd': wd}
    if os.path.exists(os.path.join(wd, 'test_job.py')):
        case['stale_script_sha'] = gl.sha(os.path.join(wd, 'test_job.py'))
    if tid % 5 == 4 and not case.get('prelim'):
        try:
            if gl.earlier_generation(case) == 0:
                detail['earlier_generation_in_this_directory'] = 'test_Job.py (ref/Job/...)'
        except Exception:
            pass
    fs0, snap0 = abstract_fs(case, ids)
    beh0 = beh_abstract(case, case['beh'], ids)
    opts = {'stdout': not case['no_stdout'], 'stderr': not case['no_stderr'], 'nonzero': case['nonzero'], 'iterations': case['iterations']}
    events.append({'tid': tid, 'ev': 'Init', 'fs': fs0, 'beh': beh0, 'opts': opts})
    try:
        rc, out, err = gl.run_gentest(case)
    except Exception as ex:
        events.append({'tid': tid, 'ev': 'Generate', 'raised': type(ex).__name__, 'fs': fs0, 'compiles': False})
        return events, detail
    refused = case['beh']['exit'] != 0 and not case['nonzero']
    case['assumed'] = {k: beh0['files'][k] for k in case['names'] if case['names'][k].startswith('$TMPDIR/') or case['names'][k].startswith('~')}
    fs1, snap1 = abstract_fs(case, ids)
    compiles = True
    raised = 'none'
    if refused:
        if rc == 0:
            raised = 'generated-despite-nonzero-exit'
    else:
        if rc != 0 or not os.path.exists(os.path.join(wd, 'test_job.py')):
            raised = 'gentest-exit-%s' % rc
            detail['gentest_stderr'] = err[-600:]
        else:
            try:
                py_compile.compile(os.path.join(wd, 'test_job.py'), doraise=True, cfile=os.path.join(wd + '_tmp', 'x.pyc'))
            except py_compile.PyCompileError as ex:
                compiles = False
                detail['compile_error'] = str(ex)[:300]
    # files outside the model's paths that were altered or removed (cmd.py, beh.json, nested files ...)
    known = set(case['names'].values()) | {'keepme.cfg', os.path.join('sub', 'nested.dat'), 'test_job.py'}
    # (gentest's own reference directory for THIS script is its to rewrite; another script's is not)
    other_changed = [p for p in snap0 if p not in known and not p.startswith(os.path.join('ref', 'job') + os.sep) and p != 'ref' and snap1.get(p) != snap0[p]]
    if other_changed:
        fs1['in1'] = 'clobbered:' + other_changed[0]
    elif detail.get('earlier_generation_in_this_directory') and raised == 'none' and not refused:
        # the test generated earlier in this directory is one of the files that were there: it must still pass
        try:
            res_e, out_e, rc_e = gl.run_script(case, script='test_Job.py')
            if rc_e != 0 or not res_e or any(v_ != 'pass' for v_ in res_e.values()):
                fs1['in1'] = 'clobbered: the test generated earlier (test_Job.py) no longer passes'
                detail['earlier_test_output'] = out_e[-500:]
        except Exception:
            pass
    events.append({'tid': tid, 'ev': 'Generate', 'raised': raised, 'fs': fs1, 'compiles': compiles})
    if raised != 'none' or refused or not compiles:
        return events, detail

    def runtest(label, beh_now=None):
        res, outp, rcode = gl.run_script(case)
        if beh_now is not None:
            case['assumed'] = {k: beh_now['files'][k] for k in case['assumed']}
        fsx, _ = abstract_fs(case, ids)
        v = verdicts(case, res)
        tmap = gl.script_test_map(case)
        mapped = {gl.lookup(tmap, n, gl.test_name_for(n)) for n in case['names'].values()} | {'test_stdout', 'test_stderr', 'test_exit_code'}
        other = res.get('test_no_exception', 'missing') == 'pass' and all(v_ == 'pass' for t_, v_ in res.items() if t_ not in mapped)
        if not other:
            detail['unexpected_tests'] = {t_: v_ for t_, v_ in res.items() if t_ not in mapped}
        e = {'tid': tid, 'ev': 'RunTest', 'raised': 'none', 'verdict': v, 'fs': fsx, 'othertests': other}
        if any(x != 'pass' for x in v.values()) and label != 'perturbed':
            detail.setdefault('script_output', outp[-2500:])
        events.append(e)
        return v
    # a history without a test run straight after generation: the command changes, is run once by hand, then the tests run
    by_hand_history = nperturb > 0 and tid % 4 == 2
    if not by_hand_history:
        runtest('fresh')
    # perturbations: one change at a time, each followed by a run of the generated test
    targets = sorted(case['names']) + ([] if case['no_stdout'] else ['STDOUT']) + ([] if case['no_stderr'] else ['STDERR']) + ['exit']
    cwd_files = [k for k in sorted(case['names']) if not case['names'][k].startswith('$TMPDIR/') and not case['names'][k].startswith('~')]
    plan = ['remove', 'stream', 'edit', 'exit', 'tokenline', 'stream', 'tokenline']
    for step in range(nperturb):
        into_ = False
        kind_ = 'tokenline' if step == 1 else plan[(tid + step) % len(plan)]
        forced_char = dated is not None and step == 0
        if forced_char:
            kind_ = 'stream'
        # fixed places in the rotation for two kinds of change that random choice reaches too rarely
        forced_target, forced_how = None, None
        if step == 2 and 'o2' in case['names']:
            kind_, forced_target = 'edit', 'o2'
        elif step == 2 and 'o4' in case['names']:
            kind_, forced_target = 'edit', 'o4'
        elif step == 0 and not forced_char and tid % 3 == 1 and 'o1' in case['names'] and not case['names']['o1'].startswith('$TMPDIR/'):
            kind_, forced_target, forced_how = 'edit', 'o1', 'nonascii'
        if forced_target:
            t = forced_target
        elif kind_ in ('remove', 'edit') and cwd_files:
            t = rnd.choice(cwd_files if kind_ == 'remove' else sorted(case['names']))
        elif kind_ == 'exit':
            t = 'exit'
        elif kind_ == 'tokenline':
            cands = [x for x in targets if x in ('STDOUT', 'STDERR')] + [k for k in sorted(case['names']) if case['beh']['files'][case['names'][k]]['kind'] == 'text']
            t = cands[(tid + step) % len(cands)] if cands else 'exit'
            into_ = cands and ((tid + step) // len(cands)) % 2 == 0       # (every target meets both kinds of token-line change)
        else:
            streams = [x for x in targets if x in ('STDOUT', 'STDERR')]
            t = 'STDOUT' if forced_char else (rnd.choice(streams) if streams else rnd.choice(targets))
        beh = copy.deepcopy(case['beh'])
        what = ''
        if t in case['names']:
            name = case['names'][t]
            spec = beh['files'][name]
            how = 'remove' if kind_ == 'remove' else ('tokenline' if kind_ == 'tokenline' and spec['kind'] == 'text' else 'edit')
            if how == 'tokenline':
                done_ = False
                if into_:
                    for tok_ in case['tokens'][:3]:
                        spec['text'], done_ = gl.edit_into_token(spec['text'], tok_)
                        if done_:
                            what = 'text file: first line altered into one that mentions a machine-specific token'
                            break
                if not done_:
                    spec['text'], what = gl.edit_token_line(spec['text'], rnd, case['wd'], tokens=case['tokens'][:3])
            elif how == 'remove':
                beh['files'][name] = None
                what = 'file no longer produced'
            elif spec['kind'] == 'text':
                spec['text'] = gl.edit_first_line(spec['text'], rnd, how=forced_how if (forced_how and spec['text'].isascii()) else None)
                what = 'text file edited' + (' (a character outside ASCII added)' if forced_how and not spec['text'].isascii() else '')
            else:
                i = rnd.randrange(len(spec['bytes']))
                old = spec['bytes'][i]
                if rnd.random() < (0.85 if len(spec['bytes']) % 4096 == 0 else 0.4):
                    spec['bytes'] = spec['bytes'] + [rnd.randrange(256)]
                    what = 'one byte appended (%d bytes before): %d' % (len(spec['bytes']) - 1, spec['bytes'][-1])
                else:
                    new = (old + 1) % 256
                    spec['bytes'][i] = new
                    what = 'byte %d changed %d -> %d' % (i, old, new)
        elif t in ('STDOUT', 'STDERR') and kind_ == 'tokenline':
            key_ = 'stdout' if t == 'STDOUT' else 'stderr'
            done_ = False
            if into_:
                # an ordinary line altered into one that mentions the machine (same number of lines)
                for tok_ in case['tokens'][:3]:
                    beh[key_], done_ = gl.edit_into_token(beh[key_], tok_)
                    if done_:
                        what = '%s: first line altered into one that mentions a machine-specific token' % key_
                        break
            if not done_:
                beh[key_], what = gl.edit_token_line(beh[key_], rnd, case['wd'], tokens=case['tokens'][:3])
                what = '%s: %s' % (key_, what)
        elif t == 'STDOUT':
            beh['stdout'] = gl.edit_first_line(beh['stdout'], rnd, how='char' if forced_char else None)
            what = 'stdout edited'
        elif t == 'STDERR':
            beh['stderr'] = gl.edit_first_line(beh['stderr'], rnd)
            what = 'stderr edited'
        else:
            beh['exit'] = (3 if tid % 3 else -15) if beh['exit'] == 0 else rnd.choice([0, 4, 4, 1])      # also from one failure status to another, and to death by a signal
            what = 'exit status changed'
        gl.set_behaviour(case, beh)
        events.append({'tid': tid, 'ev': 'Perturb', 'raised': 'none', 'target': t, 'what': what, 'beh': beh_abstract(case, beh, ids)})
        detail.setdefault('perturbations', []).append({'target': t, 'what': what})
        if by_hand_history and step == 0:
            try:
                gl.run_command_by_hand(case)
                detail['command_run_by_hand_before_the_first_test_run'] = True
            except Exception:
                pass
        runtest('perturbed', beh_abstract(case, beh, ids))
        # back to the original behaviour: the test passes again
        gl.set_behaviour(case, case['beh'])
        events.append({'tid': tid, 'ev': 'Perturb', 'raised': 'none', 'target': t, 'what': 'restored', 'beh': beh0})
        runtest('restored', beh0)
    return events, detail


SHAPES = {'': [], 'o1': ['o1'], 'o2': ['o2'], 'o1o2': ['o1', 'o2'], 'o1o3': ['o1', 'o3'], 'o1o4': ['o1', 'o4'], 'o1o5': ['o1', 'o5'], 'o1o6': ['o1', 'o6']}


def script_passes_signature(e, det):
    sig = {'kind': 'gentest', 'clause': 'ScriptPasses'}
    failing = sorted(t for t, v in e['verdict'].items() if v != 'pass')
    sig['failing'] = ','.join(failing)
    sig['iterations'] = det['flags'][det['flags'].index('-n') + 1]

    def text_of_target(t):
        b = det['behaviour']
        if t == 'STDOUT':
            return b['stdout']
        if t == 'STDERR':
            return b['stderr']
        for n_, sp in b['files'].items():
            if sp and sp['kind'] == 'text' and n_ == det.get('names', {}).get(t):
                return sp['text']
        return ''
    sig['failing_mention_tmpdir'] = bool(failing) and all('{TMPDIR}' in text_of_target(t) for t in failing)
    sig['verdicts'] = ','.join(sorted(set(e['verdict'][t] for t in failing)))
    # control characters make chardet call a text binary, and gentest then derives no exclusions for it
    sig['control_chars'] = bool(failing) and all(re.search('[\x00-\x08\x0b\x0c\x0e-\x1f]', text_of_target(t)) for t in failing)
    if failing == ['o2']:
        name = [n for n, sp in det['behaviour']['files'].items() if sp and sp['kind'] == 'binary']
        sig['binary_ext'] = os.path.splitext(name[0])[1] if name else ''
    return sig


def _changed_line_spells_token(det, m_byte, m_append):
    """For a binary output compared as ISO-8859-1 text (D19): does the line (str.splitlines) that holds the changed / appended
    byte contain the host or the user name?  det['behaviour'] holds the bytes as generated (before the change)."""
    import socket, getpass
    bs = [sp['bytes'] for sp in det['behaviour']['files'].values() if sp and sp['kind'] == 'binary']
    if not bs or not (m_byte or m_append):
        return False
    text = bytes(bs[0]).decode('iso-8859-1')
    pos = len(text) - 1 if m_append else int(re.match(r'byte (\d+)', m_byte.group(0)).group(1))
    if m_append and text.splitlines(True)[-1:] != text.splitlines()[-1:]:
        return False        # the appended byte starts a line of its own
    upto = 0
    for line in text.splitlines(True):
        if upto <= pos < upto + len(line):
            return any(tok and tok in line for tok in (socket.gethostname(), getpass.getuser()))
        upto += len(line)
    return False


def run_sessions(chk, seed, nsessions, nperturb, clauses, kind):
    root = common.subdir('gentest_' + kind)
    rnd = random.Random(seed)
    tasks = []
    for tid in range(nsessions):
        shape = rnd.choice(['', 'o1', 'o1', 'o2', 'o1o2', 'o1o2', 'o1o3', 'o1o4', 'o1o5', 'o1o6'])
        tasks.append((rnd.randrange(10**9), tid, root, SHAPES[shape], nperturb))
    with ThreadPoolExecutor(14) as ex:
        results = list(ex.map(one_session, tasks))
    byshape = {}
    details = {}
    for (seed_, tid, _, shape, _), (evs, det) in zip(tasks, results):
        byshape.setdefault(''.join(shape), []).extend(evs)
        details[tid] = det
    # what the perturbations were (evidence; a kind that never occurs was never tested)
    pk = chk.coverage.setdefault('perturbation_kinds', {})
    for det in details.values():
        for pz in det.get('perturbations', []):
            key = '%s: %s' % ('file' if pz['target'] not in ('STDOUT', 'STDERR', 'exit') else pz['target'],
                              re.sub(r'\d+', 'N', pz['what'].split(': ')[-1])[:60])
            pk[key] = pk.get(key, 0) + 1
    nviol = 0
    for shape, events in sorted(byshape.items()):
        res, rejected = trace.validate('Trace_Gentest', 'Trace_Gentest_%s.cfg' % shape, events, name='gentest_%s_%s' % (kind, shape or 'none'),
                                       workers=4)
        if res.error and 'not fully consumed' in res.error:
            expected = 0
            stopped = set()
            for e in events:
                if e['tid'] in stopped:
                    continue
                if e.get('raised', 'none') != 'none':
                    stopped.add(e['tid'])
                    continue
                expected += 1
            done = [r for r in res.rows if 'consumed' in r]
            if done and done[-1]['consumed'] == expected:
                res.ok, res.error = True, None
        chk.add_tlc(res)
        seen = set()
        for rej in rejected:
            for clause in rej['bad']:
                idx = rej['at'] if clause.startswith('CompletesWithoutError') else rej['line']
                e = events[idx - 1]
                if clause not in clauses and not clause.startswith('CompletesWithoutError'):
                    continue
                key = (e['tid'], clause, idx)
                if key in seen:
                    continue
                seen.add(key)
                det = details[e['tid']]
                sig = {'kind': 'gentest', 'clause': clause}
                if e['raised'] != 'none':
                    sig['error'] = e['raised']
                # which perturbation (if any) preceded this line
                prev = [x for x in events[:idx] if x['tid'] == e['tid'] and x['ev'] == 'Perturb']
                if clause == 'ScriptPasses' and e['ev'] == 'RunTest' and len([t for t, v in e['verdict'].items() if v != 'pass']) > 1:
                    # several tests of one script fail: one witness per failing test (each may have its own cause)
                    for t_ in sorted(t for t, v in e['verdict'].items() if v != 'pass'):
                        e1 = dict(e, verdict={k_: (v_ if k_ == t_ else 'pass') for k_, v_ in e['verdict'].items()})
                        sig1 = script_passes_signature(e1, det)
                        chk.violation(sig1, {'case': {k: v for k, v in det.items() if k != 'wd'}, 'event': e, 'failing_test': t_,
                                             'previous_perturbation': prev[-1] if prev else None,
                                             'how': 'python -m tdda.referencetest.gentest in a scratch directory; generated test run with '
                                                    'python test_job.py -v; judged by spec/Trace_Gentest.tla'})
                        nviol += 1
                    continue
                if clause == 'ScriptPasses' and e['ev'] == 'RunTest':
                    sig = script_passes_signature(e, det)
                if clause == 'Teeth' and prev:
                    sig['target'] = prev[-1]['target']
                    sig['what'] = prev[-1]['what'].split(' ')[0]
                    if e['ev'] == 'RunTest':
                        spurious = sorted(t for t, v in e['verdict'].items() if v != 'pass' and t != prev[-1]['target'])
                        missed = e['verdict'].get(prev[-1]['target']) == 'pass'
                        sig['missed'] = missed
                        sig['spurious'] = ','.join(spurious)
                        if spurious == ['o2'] and not missed:
                            name = [n for n, sp in det['behaviour']['files'].items() if sp and sp['kind'] == 'binary']
                            sig = {'kind': 'gentest', 'clause': 'Teeth', 'spurious': 'o2', 'missed': False,
                                   'spurious_verdict': e['verdict']['o2'],
                                   'binary_ext': os.path.splitext(name[0])[1] if name else '',
                                   'iterations': det['flags'][det['flags'].index('-n') + 1]}
                    if prev[-1]['target'] == 'o2':
                        name = [n for n, sp in det['behaviour']['files'].items() if sp and sp['kind'] == 'binary']
                        sig['binary_ext'] = os.path.splitext(name[0])[1] if name else ''
                        m_ = re.match(r'byte \d+ changed (\d+) -> (\d+)', prev[-1]['what'])
                        # bytes that str.splitlines treats as line ends when the file is read as ISO-8859-1 text
                        seps = {0x0a, 0x0b, 0x0c, 0x0d, 0x1c, 0x1d, 0x1e, 0x85}
                        sig['line_separator_swap'] = bool(m_ and int(m_.group(1)) in seps and int(m_.group(2)) in seps)
                        m2_ = re.match(r'one byte appended \(\d+ bytes before\): (\d+)', prev[-1]['what'])
                        if m2_ and int(m2_.group(1)) in seps:
                            sig['line_separator_swap'] = True      # a line end added after the last line: the same reading-as-text defect
                        # the same reading-as-text defect, third face: the changed byte sits on a "line" (ISO-8859-1 reading) whose bytes
                        # happen to spell the host or user name, and lines that mention the machine are excluded from the comparison
                        sig['changed_line_spells_machine_token'] = _changed_line_spells_token(det, m_, m2_)
                chk.violation(sig, {'case': {k: v for k, v in det.items() if k != 'wd'}, 'event': e,
                                    'previous_perturbation': prev[-1] if prev else None,
                                    'how': 'python -m tdda.referencetest.gentest in a scratch directory; generated test run with '
                                           'python test_job.py -v; judged by spec/Trace_Gentest.tla'})
                nviol += 1
    chk.coverage['traces_validated_against_impl'] += len(tasks)
    chk.coverage['replayed_cases'] += sum(len(v) for v in byshape.values())
    for (seed_, tid, _, shape, _), (evs, det) in list(zip(tasks, results))[:400]:
        chk.count_case((tid, json.dumps(det['flags']), det['pre'], json.dumps(shape)), nontrivial=len(evs) > 3)
    first = results[0]
    chk.sample({'session_events': first[0][:4], 'flags': first[1]['flags'], 'pre_existing': first[1]['pre']})
    shutil.rmtree(root, ignore_errors=True)
    return results
