"""
Concretize / abstract functions for the constraint modules (ConstraintSem, VerifySession).

Abstract cell values are integers (DESIGN 4.1): numbers are value*8, booleans 0/1, dates day numbers,
strings ids into a pool; NULL = -9999.
"""
import contextlib
import datetime
import io
import math

import numpy as np
import pandas as pd

NULL = -9999
ABSENT = -8888
EPOCH = datetime.datetime(2020, 1, 1)

# string pools: ids 1..5 in sort order with lengths 0,1,1,2,3 (MCStrLen) and the regex pool realising
# MCRexMatch = <<{1}, {2,3}, {2,3,4,5}, {4}, {1..5}>>
STRING_POOLS = [
    {'strings': ['', 'a', 'b', 'bc', 'bcd'],
     'rex': ['^$', '^[a-b]$', '^[a-d]+$', '^bc', '^.*$']},
    {'strings': ['', 'é', 'ü', 'üñ', 'üñ\u2603'],
     'rex': ['^$', '^[é-ü]$', '^[é-ü\u2603]+$', '^üñ', '^.*$']},
    # (values that end in blanks, and a value that is one blank)
    {'strings': ['', ' ', 'x', 'y ', 'z  '],
     'rex': ['^$', '^[ x]$', '^[ xyz]+$', '^[yz] ', '^.*$']},
    {'strings': ['', "'", '\\', '\\"', '\\"\U0001F600'],
     'rex': ['^$', "^['\\\\]$", '^[\'\\\\"\U0001F600]+$', '^\\\\"', '^.*$']},
]
STR_LEN = [0, 1, 1, 2, 3]
# the fourth expression has no trailing $: a value has to match from its start, not to its end
REX_MATCH = [{1}, {2, 3}, {2, 3, 4, 5}, {4, 5}, {1, 2, 3, 4, 5}]

DTYPE_VARIANTS = {
    'real': ['float64', 'Float64', 'float32'],
    'int': ['int64', 'Int64', 'int8', 'uint8'],
    'bool': ['bool', 'boolean', 'object'],
    'date': ['datetime64[ns]', 'datetime64[s]', 'datetime64[us]', 'tz', 'dateobj'],
    'string': ['object', 'category', 'category_unused'],
}


def variants_for(col):
    """dtype variants that can hold this abstract column."""
    t = col['t']
    vals = col['v']
    has_null = any(v == NULL for v in vals)
    out = []
    for var in DTYPE_VARIANTS[t]:
        if t == 'int':
            if has_null and var != 'Int64':
                continue
            if var == 'uint8' and any(v != NULL and v < 0 for v in vals):
                continue
        if t == 'bool':
            if has_null and var == 'bool':
                continue
            if not has_null and var == 'object':
                continue    # an object column of pure bools is fine too, but 'bool' covers it
        if t == 'string' and var in ('category', 'category_unused') and not any(v != NULL for v in vals):
            continue        # an all-null categorical has no string categories
        if var in ('object', 'dateobj') and t in ('bool', 'date') and not any(v != NULL for v in vals):
            continue        # an all-null object column is a string column to tdda: nothing tells its type
        out.append(var)
    return out


def scalar(t, v, pool=0):
    """Concrete Python value of an abstract non-null cell."""
    if t == 'real':
        return v / 8.0
    if t == 'int':
        return v // 8
    if t == 'bool':
        return bool(v)
    if t == 'date':
        return EPOCH + datetime.timedelta(days=v)
    if t == 'string':
        return STRING_POOLS[pool]['strings'][v - 1]
    raise ValueError(t)


def series(col, variant=None, pool=0):
    t = col['t']
    vals = col['v']
    variant = variant or variants_for(col)[0]
    conc = [None if v == NULL else scalar(t, v, pool) for v in vals]
    if t == 'real':
        if variant == 'Float64':
            return pd.Series([pd.NA if c is None else c for c in conc], dtype='Float64')
        return pd.Series([np.nan if c is None else c for c in conc], dtype=variant)
    if t == 'int':
        if variant == 'Int64':
            return pd.Series([pd.NA if c is None else c for c in conc], dtype='Int64')
        return pd.Series(conc, dtype=variant)
    if t == 'bool':
        if variant == 'boolean':
            return pd.Series([pd.NA if c is None else c for c in conc], dtype='boolean')
        if variant == 'object':
            return pd.Series(conc, dtype=object)
        return pd.Series(conc, dtype=bool)
    if t == 'date':
        if variant == 'dateobj':
            return pd.Series([None if c is None else c.date() for c in conc], dtype=object)
        if variant == 'tz':
            s = pd.Series(pd.to_datetime([pd.NaT if c is None else c for c in conc]))
            return s.dt.tz_localize('UTC') if len(s) else pd.Series(pd.DatetimeIndex([], tz='UTC'))
        s = pd.Series(pd.to_datetime([pd.NaT if c is None else c for c in conc]))
        return s.astype(variant)
    if t == 'string':
        s = pd.Series(conc, dtype=object)
        if variant == 'category':
            return s.astype('category')
        if variant == 'category_unused':
            # categories no record uses (declared up front, or left behind by a filter) are not values of the column
            return s.astype('category').cat.add_categories(['zz-unused-category', ''][:1 if '' in conc else 2])
        return s
    raise ValueError(t)


def con_value(con, col_t, pool=0):
    """The JSON-level value of a model constraint (what goes into the .tdda dictionary)."""
    k = con['k']
    if con['isnull']:
        return None
    if k == 'type':
        ts = sorted(con['tset'])
        return ts[0] if len(ts) == 1 else ts
    if k in ('min', 'max'):
        vt = con['vt']
        if vt == 'date':
            v = EPOCH + datetime.timedelta(days=con['val'])
        elif vt == 'real':
            v = con['val'] / 8.0
        elif vt == 'bool':
            v = con['val']          # bounds on boolean fields are written as numbers
        else:
            v = con['val'] // 8 if vt == 'int' and col_t != 'date' else con['val']
        if con['prec'] == 'fuzzy':
            return v
        return {'value': v, 'precision': con['prec']}
    if k == 'sign':
        return con['sgn']
    if k == 'no_duplicates':
        return True
    if k in ('max_nulls', 'min_length', 'max_length'):
        return con['val']
    if k == 'allowed_values':
        return [STRING_POOLS[pool]['strings'][i - 1] for i in sorted(con['iset'])]
    if k == 'rex':
        return [STRING_POOLS[pool]['rex'][i - 1] for i in sorted(con['iset'])]
    raise ValueError(k)


@contextlib.contextmanager
def quiet():
    with contextlib.redirect_stdout(io.StringIO()), contextlib.redirect_stderr(io.StringIO()):
        yield


def flag_abstract(v):
    if v is None or (isinstance(v, float) and math.isnan(v)) or v is pd.NA:
        return 'N'
    try:
        if pd.isna(v):
            return 'N'
    except (TypeError, ValueError):
        pass
    return 'T' if bool(v) else 'F'


SUFFIX = {'type': 'type', 'min': 'min', 'min_length': 'min_length', 'max': 'max', 'max_length': 'max_length',
          'sign': 'sign', 'max_nulls': 'nonnull', 'no_duplicates': 'nodups', 'allowed_values': 'values',
          'rex': 'rex'}


def abstract_value(t, v, pool=0):
    """Inverse of scalar() for discovered statistics; None if the value is not on the grid."""
    try:
        if v is None:
            return None
        if t == 'real':
            x = float(v) * 8
            return int(x) if x == int(x) else None
        if t == 'int':
            return int(v) * 8
        if t == 'bool':
            return int(bool(v))
        if t == 'date':
            if isinstance(v, str):
                v = pd.Timestamp(v).to_pydatetime()
            if isinstance(v, datetime.datetime):
                if v.tzinfo is not None:
                    v = v.replace(tzinfo=None)
                d = v - EPOCH
            else:
                d = datetime.datetime(v.year, v.month, v.day) - EPOCH
            return d.days if d.seconds == 0 and d.microseconds == 0 else None
        if t == 'string':
            return STRING_POOLS[pool]['strings'].index(v) + 1
    except Exception:
        return None
    return None


def abstract_discovery(field_dict, t, pool=0):
    """Discovered field constraints (to_dict form) -> the record shape of SpecDiscover.
    Unknown / off-grid values are reported as the string 'offgrid:<repr>' so that they never compare equal."""
    def num(key, tt):
        if key not in field_dict:
            return ABSENT
        v = field_dict[key]
        if isinstance(v, dict):
            v = v.get('value')
        a = abstract_value(tt, v, pool)
        return a if a is not None else 'offgrid:%r' % (v,)
    d = {
        'type': field_dict.get('type', 'none'),
        'min': num('min', t), 'max': num('max', t),
        'min_length': field_dict.get('min_length', ABSENT),
        'max_length': field_dict.get('max_length', ABSENT),
        'sign': field_dict.get('sign', 'none'),
        'max_nulls': field_dict.get('max_nulls', ABSENT),
        'no_duplicates': bool(field_dict.get('no_duplicates', False)),
        'allowed': sorted(((abstract_value('string', s, pool) or 'offgrid:%r' % (s,))
                           for s in field_dict.get('allowed_values', [])), key=lambda x_: (isinstance(x_, str), str(x_))),
    }
    return d
