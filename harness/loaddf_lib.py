"""
Real load_df calls for the LoadDf model (C16, input side of C17): where the description of a CSV file comes from.
"""
import contextlib
import io
import json
import os
import shutil

import pandas as pd

SUFFIXES = ['-metadata.json', '-csvmetadata.json', '-csv-metadata.json', '.csvmetadata.json', '.csv-metadata.json',
            '.schema.json', '.schema.yaml', '.resource.json', '.resource.yaml', '.package.json', '.package.yaml']
CSV_TEXT = 'id,when,flag\n1,25/12/2020,Y\n2,01/02/2021,N\n'
NAMES = [('data', '.csv'), ('my.data.v2', '.csv'), ('DATA', '.CSV'), ('naïve ☃', '.csv')]


def csvw(url, schema):
    cols = {'A': [{'name': 'id', 'datatype': 'integer'}, {'name': 'when', 'datatype': {'base': 'date', 'format': 'dd/MM/yyyy'}},
                  {'name': 'flag', 'datatype': {'base': 'boolean', 'format': 'Y|N'}}],
            'B': [{'name': 'id', 'datatype': 'string'}, {'name': 'when', 'datatype': {'base': 'date', 'format': 'dd/MM/yyyy'}},
                  {'name': 'flag', 'datatype': 'string'}]}[schema]
    return {'@context': 'http://www.w3.org/ns/csvw', 'url': url, 'tableSchema': {'columns': cols}}


def classify(df):
    dt = {c: str(df[c].dtype) for c in df.columns}
    if list(df.columns) != ['id', 'when', 'flag']:
        return 'other:' + ','.join(map(str, df.columns))[:60]
    when_typed = dt['when'].startswith('datetime64')
    if dt['flag'] in ('boolean', 'bool') and when_typed:
        return 'A'
    if when_typed:
        return 'B'
    return 'default'


def found_index(path):
    from tdda.serial.utils import find_associated_metadata_file
    md = find_associated_metadata_file(path)
    if md is None:
        return 0
    stem = os.path.splitext(path)[0]
    suf = md[len(stem):]
    return SUFFIXES.index(suf) + 1 if suf in SUFFIXES else -1


def find_only(wd, siblings, name=('data', '.csv')):
    """find_associated_metadata_file on a directory holding exactly the given candidate files (empty)."""
    shutil.rmtree(wd, ignore_errors=True)
    os.makedirs(wd)
    stem = os.path.join(wd, name[0])
    for i in siblings:
        open(stem + SUFFIXES[i - 1], 'w').close()
    return found_index(stem + name[1])


def load_case(wd, row, name, dotted_dir=False):
    """Builds the files of one model case and calls load_df; returns the trace event."""
    from tdda.constraints.pd.constraints import load_df
    shutil.rmtree(wd, ignore_errors=True)
    d = os.path.join(wd, 'dir.v1') if dotted_dir else wd
    os.makedirs(d)
    stem = os.path.join(d, name[0])
    ext = name[1] if row['ext'] == 'csv' else '.parquet'
    data = stem + ext
    if row['ext'] == 'csv':
        with open(data, 'w', encoding='utf-8') as f:
            f.write(CSV_TEXT)
    else:
        pd.read_csv(io.StringIO(CSV_TEXT)).to_parquet(data)
    for i in row['siblings']:
        with open(stem + SUFFIXES[i - 1], 'w', encoding='utf-8') as f:
            if i == 1:
                json.dump(csvw(os.path.basename(data), 'B'), f)
            else:
                f.write('{}')
    kw = {}
    if row['mdpath']:
        mdp = os.path.join(d, 'explicit-description.json')
        with open(mdp, 'w', encoding='utf-8') as f:
            json.dump(csvw(os.path.basename(data), 'A'), f)
        kw['mdpath'] = mdp
    if row['ignore']:
        kw['ignore_apparent_metadata'] = True
    target = data if row['given'] == 'data' else stem + SUFFIXES[0]
    detail = ''
    try:
        with contextlib.redirect_stdout(io.StringIO()), contextlib.redirect_stderr(io.StringIO()):
            df = load_df(target, **kw)
        cls = classify(df)
        if row['ext'] == 'parquet':
            observed = 'parquet' if cls == 'default' else cls
        else:
            observed = {'A': 'explicit', 'B': 'sibling' if row['given'] == 'data' else 'mdfile', 'default': 'default'}.get(cls, cls)
        detail = json.dumps({c: str(df[c].dtype) for c in df.columns})[:300]
    except Exception as ex:
        observed = 'raises'
        detail = '%s: %s' % (type(ex).__name__, str(ex)[:200])
    return {'ext': row['ext'], 'given': row['given'], 'siblings': sorted(row['siblings']), 'mdpath': bool(row['mdpath']),
            'ignore': bool(row['ignore']), 'observed': observed, 'found': found_index(data), 'detail': detail,
            'file': os.path.relpath(target, wd), 'kwargs': sorted(kw)}
