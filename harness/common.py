"""
Common machinery for every check: scratch handling, evidence, known findings, verdict lines.

Verdict classes (DESIGN 3.4):
  VIOLATION      exit 1, concrete witness executed on the real code contradicts the property
  KNOWN-FINDING  exit 0, witness signature matches an open entry of known_findings.json
  DRIFT          exit 0, real code disagrees with the transcription Impl..., not with the property
  exit 2         machinery failure only
"""
import atexit
import hashlib
import json
import os
import shutil
import sys
import tempfile
import time

VERIF = os.path.dirname(os.path.dirname(os.path.abspath(__file__)))
REPO = os.environ.get('VERIF_REPO', '/repo')
SPEC = os.path.join(VERIF, 'spec')
PY = '/venv/bin/python'

_scratch = None


def scratch():
    """Per-run scratch directory outside /repo and /verif, removed at exit."""
    global _scratch
    if _scratch is None:
        base = os.environ.get('VERIF_SCRATCH_BASE', tempfile.gettempdir())
        _scratch = tempfile.mkdtemp(prefix='verif-', dir=base)
        os.makedirs(os.path.join(_scratch, 'tmp'), exist_ok=True)
        atexit.register(_cleanup)
    return _scratch


def _cleanup():
    global _scratch
    if _scratch and os.environ.get('VERIF_KEEP_SCRATCH') != '1':
        shutil.rmtree(_scratch, ignore_errors=True)
    _scratch = None


def subdir(name):
    d = os.path.join(scratch(), name)
    os.makedirs(d, exist_ok=True)
    return d


def child_env(extra=None):
    """Environment for harness subprocesses that import tdda from the working tree."""
    env = dict(os.environ)
    env['PYTHONPATH'] = REPO + os.pathsep + VERIF
    env['PYTHONDONTWRITEBYTECODE'] = '1'
    env['PYTHONHASHSEED'] = '0'
    env['TDDA_VERIF'] = '1'
    env['TMPDIR'] = os.path.join(scratch(), 'tmp')
    env['TDDA_TESTS_TMPDIR'] = env['TMPDIR']
    if extra:
        env.update(extra)
    return env


def seed():
    try:
        return int(os.environ.get('VERIF_SEED', '0'))
    except ValueError:
        return 0


def tier(argv_tier=None):
    t = argv_tier or os.environ.get('VERIF_TIER') or 'quick'
    return 'thorough' if t.startswith('t') else 'quick'


def load_known_findings():
    path = os.path.join(VERIF, 'known_findings.json')
    if not os.path.exists(path):
        return {'open': [], 'fixed': []}
    with open(path) as f:
        return json.load(f)


def _sig_matches(entry_sig, sig):
    """An entry matches a witness when every key of the entry's signature is present in the
    witness signature with an equal value (entry values may be lists = any-of)."""
    for k, v in entry_sig.items():
        if k not in sig:
            return False
        if isinstance(v, list):
            if sig[k] not in v:
                return False
        elif sig[k] != v:
            return False
    return True


class Check:
    """Collects results of one check run and produces evidence, verdict lines and exit status."""

    def __init__(self, pid, level='model_checking', tier_=None, design_ref=None):
        self.pid = pid
        self.level = level
        self.tier = tier(tier_)
        self.seed = seed()
        self.t0 = time.time()
        self.violations = []        # (signature, witness)
        self.known = {}             # finding id -> [count, first witness]
        self.drift = []
        self.coverage = {
            'states': 0, 'transitions': 0, 'traces_validated_against_impl': 0,
            'samples': [], 'evaluations': 0, 'distinct_nontrivial': 0,
            'rule': '', 'tlc_runs': [], 'replayed_cases': 0, 'drift': 0,
        }
        self.assumptions = []
        self._distinct = set()
        self.findings = [e for e in load_known_findings().get('open', [])
                         if e.get('property') == pid]
        self.machinery_errors = []
        self.notes = []
        # VERIF_REPLAY_DIR / VERIF_EVIDENCE_DIR: used by bin/seedmatrix to keep parallel runs against scratch trees apart
        self.replay_root = os.environ.get('VERIF_REPLAY_DIR') or os.path.join(VERIF, 'replays')
        self.evidence_root = os.environ.get('VERIF_EVIDENCE_DIR') or os.path.join(VERIF, 'evidence')
        shutil.rmtree(os.path.join(self.replay_root, pid), ignore_errors=True)

    # ---- coverage bookkeeping ------------------------------------------------------------
    def add_tlc(self, res):
        self.coverage['states'] += res.distinct
        self.coverage['transitions'] += res.generated
        self.coverage['tlc_runs'].append(res.summary())
        if not res.ok:
            self.machinery_errors.append('TLC run %s failed: %s' % (res.name, res.error))

    def count_case(self, key, nontrivial=True):
        self.coverage['evaluations'] += 1
        if nontrivial:
            h = hashlib.blake2b(repr(key).encode('utf8', 'replace'), digest_size=8).digest()
            self._distinct.add(h)

    def sample(self, obj, limit=6):
        if len(self.coverage['samples']) < limit:
            self.coverage['samples'].append(obj)

    def assume(self, text):
        if text not in self.assumptions:
            self.assumptions.append(text)

    # ---- verdicts ------------------------------------------------------------------------
    def violation(self, signature, witness):
        """signature: dict describing the class of the witness (kind=...); witness: concrete,
        JSON-serialisable input + observed + expected."""
        for e in self.findings:
            if _sig_matches(e['signature'], signature):
                ent = self.known.setdefault(e['id'], [0, witness, e])
                ent[0] += 1
                return 'known'
        self.violations.append((signature, witness))
        return 'violation'

    def drift_case(self, what):
        self.coverage['drift'] += 1
        if len(self.drift) < 20:
            self.drift.append(what)

    def machinery_error(self, text):
        self.machinery_errors.append(text)

    # ---- finish --------------------------------------------------------------------------
    def finish(self):
        cov = self.coverage
        cov['distinct_nontrivial'] = len(self._distinct)
        cov['known_findings_seen'] = {k: v[0] for k, v in self.known.items()}
        cov['drift_samples'] = self.drift[:10]
        if self.notes:
            cov['notes'] = self.notes
        replay_paths = []
        if self.violations:
            rdir = os.path.join(self.replay_root, self.pid)
            os.makedirs(rdir, exist_ok=True)
            bysig = {}
            for sig, wit in self.violations:
                # one replay file per signature class ('kind' + 'clause'), not per witness
                cls = {k: v for k, v in sig.items() if k in ('kind', 'clause')} or sig
                bysig.setdefault(json.dumps(cls, sort_keys=True), []).append(dict(wit, signature=sig))
            for n, (sigtxt, wits) in enumerate(sorted(bysig.items())):
                p = os.path.join(rdir, 'violation_%02d.json' % n)
                with open(p, 'w') as f:
                    sc = {}
                    for w_ in wits:
                        key = json.dumps({k: v for k, v in w_['signature'].items() if k != 'argv'}, sort_keys=True)
                        sc[key] = sc.get(key, 0) + 1
                    # keep witnesses of different full signatures rather than the first five
                    seen, keep = set(), []
                    for w_ in wits:
                        key = json.dumps({k: v for k, v in w_['signature'].items() if k != 'argv'}, sort_keys=True)
                        if key not in seen and len(keep) < 12:
                            seen.add(key)
                            keep.append(w_)
                    json.dump({'property': self.pid, 'signature': json.loads(sigtxt),
                               'count': len(wits), 'signature_counts': sc, 'witnesses': keep,
                               'rerun': 'bin/check %s --replay %s' % (self.pid, p)},
                              f, indent=1, default=str)
                replay_paths.append(p)
        ev = {
            'property_id': self.pid,
            'tier': self.tier,
            'seed': self.seed,
            'level': self.level,
            'coverage': cov,
            'assumptions': self.assumptions,
            'wall_s': round(time.time() - self.t0, 2),
            'violations': len(self.violations),
        }
        os.makedirs(self.evidence_root, exist_ok=True)
        evpath = os.path.join(self.evidence_root, self.pid + '.json')
        with open(evpath, 'w') as f:
            json.dump(ev, f, indent=1, default=str)
        for fid, (n, wit, e) in sorted(self.known.items()):
            print('KNOWN-FINDING: property=%s %s (%s; %d witnesses this run)'
                  % (self.pid, e['what'], fid, n))
        if cov['drift']:
            print('DRIFT: property=%s %d cases where the code differs from the transcription '
                  'but not from the property' % (self.pid, cov['drift']))
        for p in replay_paths:
            print('VIOLATION property=%s replay=%s' % (self.pid, p))
        if self.machinery_errors:
            for m in self.machinery_errors:
                print('MACHINERY-ERROR: %s' % m, file=sys.stderr)
            print('check %s: machinery failure' % self.pid)
            return 1 if self.violations else 2
        print('check %s tier=%s: states=%d transitions=%d replayed=%d traces=%d '
              'violations=%d known=%d drift=%d wall=%.1fs'
              % (self.pid, self.tier, cov['states'], cov['transitions'], cov['replayed_cases'],
                 cov['traces_validated_against_impl'], len(self.violations),
                 sum(v[0] for v in self.known.values()), cov['drift'], ev['wall_s']))
        return 1 if self.violations else 0
