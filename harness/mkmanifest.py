#!/venv/bin/python
"""Regenerates /verif/MANIFEST.json from the table below (single source of truth)."""
import json
import os
import sys

HERE = os.path.dirname(os.path.dirname(os.path.abspath(__file__)))

# id -> (category, technique, text, note, design_ref)
BUILT = {}

PENDING_REASON = ('check not built yet in this round (TLA+ module designed in DESIGN.md section 5; '
                  'claimed as soon as its spec, TLC run and binding exist)')


def claim(pid, technique, text, note, ref, category='model_checking'):
    BUILT[pid] = dict(technique=technique, text=text, note=note, ref=ref, category=category)


# claims are registered in checks/claims.py so that this file stays mechanical
sys.path.insert(0, HERE)
try:
    from checks import claims  # noqa: F401,E402
    claims.register(claim)
except ImportError:
    pass


def main():
    ids = [json.loads(l)['id'] for l in open(os.path.join(HERE, 'properties.jsonl'))]
    checks = []
    na = []
    for pid in ids:
        if pid in BUILT:
            b = BUILT[pid]
            checks.append({
                'property_id': pid,
                'quick_cmd': 'bin/check %s --tier quick' % pid,
                'thorough_cmd': 'bin/check %s --tier thorough' % pid,
                'evidence_file': '/verif/evidence/%s.json' % pid,
                'replay_cmd_template': 'bin/check %s --replay {path}' % pid,
                'engine': 'tlc',
                'level_claimed': {'category': b['category'], 'text': b['text'] + getattr(claims, 'ADDENDA', {}).get(pid, ''),
                                  'design_ref': b['ref']},
                'level_note': b['note'],
                'technique': b['technique'],
            })
        else:
            na.append({'property_id': pid, 'reason': claims.NOT_CLAIMED.get(pid, PENDING_REASON)
                       if 'claims' in globals() else PENDING_REASON})
    man = {
        'version': 1,
        'setup_cmd': 'bin/setup',
        'hooks': {
            'guard': 'TDDA_VERIF',
            'enable': 'checks import tdda from /repo (PYTHONPATH=/repo) with TDDA_VERIF=1 in the '
                      'environment; nothing is compiled',
            'baseline_off_cmd': 'bin/baseline_off',
            'source_commits': claims.HOOK_COMMITS if 'claims' in globals() else [],
            'add_only': True,
        },
        'engines': [
            {'name': 'tlc', 'path': '/usr/local/bin/tlc',
             'serves_properties': sorted(BUILT),
             'kind_free_text': 'TLA+ specifications in /verif/spec checked with TLC 1.8.0; bound to '
                               'the code by case-table replay (spec -> code) and batched trace '
                               'validation (code -> spec)'},
        ],
        'checks': checks,
        'notes': 'See DESIGN.md. Verdict classes: VIOLATION (exit 1), KNOWN-FINDING / DRIFT (exit 0), '
                 'exit 2 = machinery failure. known_findings.json is read-only at run time.',
        'not_applicable': na,
    }
    with open(os.path.join(HERE, 'MANIFEST.json'), 'w') as f:
        json.dump(man, f, indent=1)
    print('MANIFEST.json: %d checks, %d not claimed' % (len(checks), len(na)))


if __name__ == '__main__':
    main()
