"""One rexpy extraction in a FRESH interpreter (no earlier rexpy call in the process): reads a JSON case on stdin,
prints the JSON list of expressions.  Used by C14 to compare with the same call made after a long history."""
import json
import sys


def main():
    case = json.load(sys.stdin)
    from tdda.rexpy import extract
    from tdda.rexpy.rexpy import Size
    kw = dict(case['kw'])
    if case.get('size'):
        kw['size'] = Size(**case['size'])
    try:
        out = {'rex': extract(case['examples'], **kw), 'raised': 'none'}
    except Exception as ex:
        out = {'rex': [], 'raised': type(ex).__name__}
    sys.stdout.write(json.dumps(out))


if __name__ == '__main__':
    main()
