"""Shared driver for the constraint checks: TLC case table -> worker pool replay."""
import json
import multiprocessing as mp
import random

from . import common, tlc
from . import constraints_lib as cl
from . import constraints_replay as cr

INVARIANTS = ['ImplIsSpec', 'MissingFails', 'NullValuedPasses', 'FlagsImplIsSpec', 'FlagsExplain',
              'NullsUnflagged', 'DiscoverImplIsSpec', 'ClosureHolds', 'AttainedHolds']


def cfg(maxcells, emit, coltypes=('real', 'int', 'bool', 'date', 'string'), defects=()):
    return ('CONSTANTS\n  StrLen <- MCStrLen\n  RexMatch <- MCRexMatch\n  Defects = {%s}\n  MaxCells = %d\n'
            '  EmitRows = %s\n  ColTypes = {%s}\nINIT Init\nNEXT Next\n%sINVARIANT EmitCase\nCHECK_DEADLOCK FALSE\n'
            % (', '.join('"%s"' % d for d in defects), maxcells, 'TRUE' if emit else 'FALSE',
               ', '.join('"%s"' % t for t in coltypes),
               ''.join('INVARIANT %s\n' % i for i in INVARIANTS)))


def model_rows(chk, maxcells, name='MC_ConstraintSem', coltypes=None):
    res = tlc.run('MC_ConstraintSem', cfg_text=cfg(maxcells, True, **({'coltypes': coltypes} if coltypes else {})), name=name, timeout=1800)
    chk.add_tlc(res)
    if res.violated:
        chk.machinery_error('%s (Defects = {}) violates %s: the design model does not meet the specification'
                            % (name, res.violated))
    rows = sorted(res.rows, key=lambda r: json.dumps(r['col'], sort_keys=True))
    return rows


def vacuity_run(chk):
    """The model with the known deviation switched on must violate the flag invariants."""
    res = tlc.run('MC_ConstraintSem', cfg_text=cfg(2, False, defects=('SignNullFlagsNulls',)),
                  name='MC_ConstraintSem_defect')
    chk.add_tlc(res)
    ok = any(v in ('FlagsImplIsSpec', 'NullsUnflagged') for v in res.violated)
    chk.coverage['defect_model_violates_flag_invariants'] = ok
    if not ok:
        chk.machinery_error('vacuity: the model with SignNullFlagsNulls should violate FlagsImplIsSpec')


def replay(chk, rows, want, all_variants, seed, clauses, sig_kind):
    """Replays rows in a worker pool; registers violations whose clause is in `clauses`."""
    rnd = random.Random(seed)
    tasks = []
    for r in rows:
        vs = cl.variants_for(r['col'])
        pools = range(len(cl.STRING_POOLS)) if r['col']['t'] == 'string' else [0]
        if all_variants:
            for v in vs:
                for p in pools:
                    tasks.append((r, v, p, want))
        else:
            tasks.append((r, rnd.choice(vs), rnd.choice(list(pools)), want))
    with mp.Pool(16, initializer=cr.init_worker, initargs=(common.REPO,)) as pool:
        results = pool.map(cr.replay_row, tasks, chunksize=8)
    tot = {'n_verdicts': 0, 'n_flags': 0, 'n_disc': 0, 'nontrivial': 0}
    for (r, variant, p, _), out in zip(tasks, results):
        for k in tot:
            tot[k] += out[k]
        chk.coverage['replayed_cases'] += 1
        chk.count_case((json.dumps(r['col']), variant, p), nontrivial=len(r['col']['v']) > 0)
        for e in out['errors']:
            chk.machinery_error('replay worker failed on %s: %s' % (json.dumps(r['col']), e))
        for m in out['mism']:
            if m['clause'] not in clauses:
                continue
            sig = {'kind': sig_kind, 'clause': m['clause'], 'ckind': m.get('kind'), 'coltype': r['col']['t'],
                   'variant': variant}
            if 'error' in m:
                sig['error'] = m['error'].split(':')[0]
            con = m.get('con')
            if con is not None:
                sig['sgn'] = con.get('sgn')
                sig['prec'] = con.get('prec')
            chk.violation(sig, {'column': r['col'], 'dtype_variant': variant, 'string_pool': p, 'mismatch': m,
                                'concrete_column': repr(cl.series(r['col'], variant, p).tolist()),
                                'how': 'harness.constraints_replay.replay_row (real verify_df / detect_df / discover_df)'})
        for d in out['drift']:
            chk.drift_case(dict(d, column=r['col'], variant=variant))
    for k, v in tot.items():
        chk.coverage[k] = chk.coverage.get(k, 0) + v
    return tot


def report_sessions(chk, rows, n, seed, sig_kind='constraint-verdict'):
    """Fields with several constraints x report modes x ascii x added null-valued constraints -> Trace_VerifyReport."""
    from . import verify_report as vr
    from . import trace
    rnd = random.Random(seed + 202)
    r0 = tlc.run('MC_VerifyReport', 'MC_VerifyReport.cfg', name='MC_VerifyReport')
    chk.add_tlc(r0)
    if r0.violated:
        chk.machinery_error('MC_VerifyReport violates %s' % r0.violated)
    pick = rows if n >= len(rows) else rnd.sample(rows, n)
    tasks = []
    for i, r in enumerate(pick):
        vs = cl.variants_for(r['col'])
        pools = list(range(len(cl.STRING_POOLS))) if r['col']['t'] == 'string' else [0]
        tasks.append((r, rnd.choice(vs), rnd.choice(pools), i * 1000))
    with mp.Pool(16, initializer=cr.init_worker, initargs=(common.REPO,)) as pool:
        results = pool.map(vr.report_row, tasks, chunksize=4)
    events, details = [], {}
    for (r, variant, p, _), out in zip(tasks, results):
        if out['error']:
            chk.machinery_error('report worker failed on %s: %s' % (json.dumps(r['col']), out['error']))
            continue
        events.extend(out['events'])
        details.update(out['details'])
        for m in out['mism']:
            sig = {'kind': sig_kind, 'clause': m['clause'], 'ckind': m.get('kind'), 'coltype': r['col']['t'], 'variant': variant,
                   'merged': True}
            chk.violation(sig, dict(m, column=r['col'], variant=variant, how='verify_df on a field carrying one constraint of every kind'))
    # frames of two or three different columns, each with part of its constraints
    bylen = {}
    for r in rows:
        bylen.setdefault(len(r['col']['v']), []).append(r)
    mtasks = []
    for i in range(4 * n):
        L = rnd.choice([k for k, v in bylen.items() if len(v) >= 3 and k > 0] or [0])
        if L == 0:
            break
        rs = rnd.sample(bylen[L], rnd.choice([2, 3]))
        if rnd.random() < 0.5:
            strs = [r for r in bylen[L] if r['col']['t'] == 'string']
            if len(strs) >= 2:
                rs[:2] = rnd.sample(strs, 2)       # (two string fields: lengths, values and expressions side by side)
        mtasks.append((rs, [rnd.choice(cl.variants_for(r['col'])) for r in rs],
                       [rnd.choice(range(len(cl.STRING_POOLS))) if r['col']['t'] == 'string' else 0 for r in rs], seed * 100003 + i))
    with mp.Pool(16, initializer=cr.init_worker, initargs=(common.REPO,)) as pool:
        mres = pool.map(vr.mixed_frame, mtasks, chunksize=8)
    nmixed = 0
    for (rs, vs_, ps_, _), out in zip(mtasks, mres):
        if out['error']:
            chk.machinery_error('mixed-frame worker failed: %s' % out['error'])
            continue
        nmixed += out['n']
        for m in out['mism']:
            sig = {'kind': sig_kind, 'clause': m['clause'], 'ckind': m.get('kind'), 'coltype': m['column']['t'], 'mixed_frame': True}
            chk.violation(sig, dict(m, how='verify_df on a frame of two or three different columns, each carrying part of its constraints'))
    chk.coverage['mixed_frame_verifications'] = nmixed
    chk.coverage['replayed_cases'] += nmixed
    res, rejected = trace.validate('Trace_VerifyReport', 'Trace_VerifyReport.cfg', events, name='verify_report', workers=4)
    chk.add_tlc(res)
    chk.coverage['traces_validated_against_impl'] += len(tasks)
    chk.coverage['report_lines'] = len(events)
    for rej in rejected:
        e = events[rej['line'] - 1]
        d = details.get(e['tid'], {})
        for clause in rej['bad']:
            sig = {'kind': 'verify-report', 'clause': clause, 'coltype': d.get('column', {}).get('t'), 'variant': d.get('variant')}
            if 'error' in d:
                sig['error'] = d['error'].split(':')[0]
            chk.violation(sig, {'case': d, 'event': e, 'how': 'verify_df(..., report=mode, ascii=...) / str(result) / result.to_frame(); '
                                                              'judged by spec/Trace_VerifyReport.tla'})
    if events:
        chk.sample({'report_event': {k: v for k, v in events[0].items() if k != 'lines'}})
