"""Shared driver for the constraint checks: TLC case table -> worker pool replay."""
import json
import multiprocessing as mp
import random

from . import common, tlc
from . import constraints_lib as cl
from . import constraints_replay as cr

INVARIANTS = ['ImplIsSpec', 'MissingFails', 'NullValuedPasses', 'FlagsImplIsSpec', 'FlagsExplain',
              'NullsUnflagged', 'DiscoverImplIsSpec', 'ClosureHolds', 'AttainedHolds']


def cfg(maxcells, emit, coltypes=('real', 'int', 'bool', 'date', 'string'), defects=()):
    return ('CONSTANTS\n  StrLen <- MCStrLen\n  RexMatch <- MCRexMatch\n  Defects = {%s}\n  MaxCells = %d\n'
            '  EmitRows = %s\n  ColTypes = {%s}\nINIT Init\nNEXT Next\n%sINVARIANT EmitCase\nCHECK_DEADLOCK FALSE\n'
            % (', '.join('"%s"' % d for d in defects), maxcells, 'TRUE' if emit else 'FALSE',
               ', '.join('"%s"' % t for t in coltypes),
               ''.join('INVARIANT %s\n' % i for i in INVARIANTS)))


def model_rows(chk, maxcells, name='MC_ConstraintSem'):
    res = tlc.run('MC_ConstraintSem', cfg_text=cfg(maxcells, True), name=name, timeout=1800)
    chk.add_tlc(res)
    if res.violated:
        chk.machinery_error('%s (Defects = {}) violates %s: the design model does not meet the specification'
                            % (name, res.violated))
    rows = sorted(res.rows, key=lambda r: json.dumps(r['col'], sort_keys=True))
    return rows


def vacuity_run(chk):
    """The model with the known deviation switched on must violate the flag invariants."""
    res = tlc.run('MC_ConstraintSem', cfg_text=cfg(2, False, defects=('SignNullFlagsNulls',)),
                  name='MC_ConstraintSem_defect')
    chk.add_tlc(res)
    ok = any(v in ('FlagsImplIsSpec', 'NullsUnflagged') for v in res.violated)
    chk.coverage['defect_model_violates_flag_invariants'] = ok
    if not ok:
        chk.machinery_error('vacuity: the model with SignNullFlagsNulls should violate FlagsImplIsSpec')


def replay(chk, rows, want, all_variants, seed, clauses, sig_kind):
    """Replays rows in a worker pool; registers violations whose clause is in `clauses`."""
    rnd = random.Random(seed)
    tasks = []
    for r in rows:
        vs = cl.variants_for(r['col'])
        pools = range(len(cl.STRING_POOLS)) if r['col']['t'] == 'string' else [0]
        if all_variants:
            for v in vs:
                for p in pools:
                    tasks.append((r, v, p, want))
        else:
            tasks.append((r, rnd.choice(vs), rnd.choice(list(pools)), want))
    with mp.Pool(16, initializer=cr.init_worker, initargs=(common.REPO,)) as pool:
        results = pool.map(cr.replay_row, tasks, chunksize=8)
    tot = {'n_verdicts': 0, 'n_flags': 0, 'n_disc': 0, 'nontrivial': 0}
    for (r, variant, p, _), out in zip(tasks, results):
        for k in tot:
            tot[k] += out[k]
        chk.coverage['replayed_cases'] += 1
        chk.count_case((json.dumps(r['col']), variant, p), nontrivial=len(r['col']['v']) > 0)
        for e in out['errors']:
            chk.machinery_error('replay worker failed on %s: %s' % (json.dumps(r['col']), e))
        for m in out['mism']:
            if m['clause'] not in clauses:
                continue
            sig = {'kind': sig_kind, 'clause': m['clause'], 'ckind': m.get('kind'), 'coltype': r['col']['t'],
                   'variant': variant}
            if 'error' in m:
                sig['error'] = m['error'].split(':')[0]
            con = m.get('con')
            if con is not None:
                sig['sgn'] = con.get('sgn')
                sig['prec'] = con.get('prec')
            chk.violation(sig, {'column': r['col'], 'dtype_variant': variant, 'string_pool': p, 'mismatch': m,
                                'concrete_column': repr(cl.series(r['col'], variant, p).tolist()),
                                'how': 'harness.constraints_replay.replay_row (real verify_df / detect_df / discover_df)'})
        for d in out['drift']:
            chk.drift_case(dict(d, column=r['col'], variant=variant))
    for k, v in tot.items():
        chk.coverage[k] = chk.coverage.get(k, 0) + v
    return tot
