"""
The pytest entry point of reference tests (tdda.referencetest.pytestconfig / referencepytest): real `python -m pytest`
subprocesses on generated projects.

  * tag runs (C19): a module of plain classes / functions with @tag bits, run with --tagged / --istagged / node ids;
    every run is a "PyRun" line for Trace_Argv (same SpecExecuted / SpecListed as the unittest entry point);
  * regeneration sessions (C10): a module whose tests each make one reference assertion through the `ref` fixture;
    --write-all / --write kinds... are, by their documented meaning, SetRegeneration lines; the assertions record
    themselves (files touched, reference contents) from inside the test process; every process is one session for
    Trace_RefTest, which reconstructs the regeneration table itself.
"""
import json
import os
import subprocess
import sys

from . import common
from . import reftest_session as rs

CONFTEST = '''from tdda.referencetest.pytestconfig import *
set_default_data_location(%r)
'''


def run_pytest(wd, args, env_extra=None, timeout=300):
    env = common.child_env(env_extra or {})
    env['PYTHONPATH'] = os.pathsep.join([common.REPO, common.VERIF] + [p for p in env.get('PYTHONPATH', '').split(os.pathsep) if p])
    env['PYTHONDONTWRITEBYTECODE'] = '1'
    p = subprocess.run([common.PY, '-W', 'ignore', '-m', 'pytest', '-q', '-s', '-p', 'no:cacheprovider'] + list(args),
                       cwd=wd, env=env, stdout=subprocess.PIPE, stderr=subprocess.PIPE, text=True, timeout=timeout)
    return p.returncode, p.stdout, p.stderr


# ---------------------------------------------------------------------------------------------------------------
# tag runs

def write_tag_project(wd, structure, functions, twin=False):
    """structure: [{'cls', 'ctag', 'tests': [{'name', 'mtag'}], 'parent'?}]; functions: [{'name', 'mtag'}]."""
    os.makedirs(wd, exist_ok=True)
    with open(os.path.join(wd, 'conftest.py'), 'w') as f:
        f.write(CONFTEST % os.path.join(wd, 'ref'))
    lines = ['import os', 'from tdda.referencetest import tag', '',
             'def _log(x):', "    with open(os.environ['VERIF_PYLOG'], 'a') as f:", "        f.write(x + '\\n')", '']
    for c in structure:
        if c['ctag']:
            lines.append('@tag')
        lines.append('class %s%s:' % (c['cls'], '(%s)' % c['parent'] if c.get('parent') else ''))
        if not c['tests']:
            lines.append('    pass')
        for t in c['tests']:
            if t['mtag']:
                lines.append('    @tag')
            lines.append('    def %s(self):' % t['name'])
            lines.append("        _log(type(self).__name__ + ' %s')" % t['name'])
        lines.append('')
    for fn in functions:
        if fn['mtag']:
            lines.append('@tag')
        lines.append('def %s():' % fn['name'])
        lines.append("    _log('fn_%s %s')" % (fn['name'], fn['name']))
        lines.append('')
    with open(os.path.join(wd, 'test_mod.py'), 'w') as f:
        f.write('\n'.join(lines) + '\n')
    if twin:
        # a second module that defines classes of the SAME names (they are other classes); its tests log '<Class>_twin'
        with open(os.path.join(wd, 'test_twin.py'), 'w') as f:
            f.write('\n'.join(lines).replace("_log(type(self).__name__ + ' ", "_log(type(self).__name__ + '_twin ") + '\n')


def tag_run(wd, structure, functions, names, tagged, check, extra=(), twin=False):
    """names: class names / function names to narrow the selection (node ids)."""
    write_tag_project(wd, structure, functions, twin=twin)
    log = os.path.join(wd, 'executed.log')
    if os.path.exists(log):
        os.remove(log)
    args = ['test_mod.py::%s' % n for n in names] or (['test_mod.py', 'test_twin.py'] if twin else ['test_mod.py'])
    args = list(extra) + args
    if tagged:
        args.append('--tagged')
    if check:
        args.append('--istagged')
    rc, out, err = run_pytest(wd, args, {'VERIF_PYLOG': log})
    executed = []
    if os.path.exists(log):
        executed = [ln.split(' ') for ln in open(log).read().split('\n') if ln]
    listed = []
    for ln in out.splitlines():
        ln = ln.strip()
        if ln.startswith('test_mod.') and ' ' not in ln:
            name = ln[len('test_mod.'):]
            listed.append(name if name[:1].isupper() else 'fn_' + name)
        elif ln.startswith('test_twin.') and ' ' not in ln:
            listed.append(ln[len('test_twin.'):] + '_twin')
    error = 'none'
    if rc not in (0, 5):      # 5: no tests collected / selected
        error = 'exit %d: %s' % (rc, (out + err)[-300:])
    return {'executed': executed, 'listed': listed, 'error': error, 'argv': args}


# ---------------------------------------------------------------------------------------------------------------
# regeneration sessions

class PySession(rs.Session):
    """A Session on an existing directory, driven by the ReferenceTest instance the `ref` fixture injected."""

    def __init__(self, root, path_types, content_names, rt, variant=0):
        self.root = root
        self.refdir = os.path.join(root, 'ref')
        self.actdir = os.path.join(root, 'actual')
        self.tmpdir = os.path.join(root, 'tmp')
        for d in (self.refdir, self.actdir, self.tmpdir):
            os.makedirs(d, exist_ok=True)
        self.path_types = dict(path_types)
        self.content_names = list(content_names)
        self.variant = variant
        self.pools = {ty: rs.POOLS[ty]() for ty in set(self.path_types.values())}
        self.rt = rt
        self.nact = 0


_SESSION = {}


def step(ref, here, i):
    """Called from inside a generated test: the i-th assertion of plan.json, recorded as an Assert line."""
    plan = json.load(open(os.path.join(here, 'plan.json')))
    sess = _SESSION.get(here)
    if sess is None:
        sess = _SESSION[here] = PySession(here, plan['ptypes'], plan['cnames'], ref, variant=plan['variant'])
    sess.rt = ref
    sess.nact = 100 * plan['run'] + i
    a = plan['steps'][i]
    out, wrote, detail = sess.do_assert(a['type'], a['kind'], a['paths'], a['actual'])
    with open(os.path.join(here, 'events_%d.ndjson' % plan['run']), 'a') as f:
        f.write(json.dumps({'ev': 'Assert', 'type': a['type'], 'kind': a['kind'], 'paths': a['paths'], 'actual': a['actual'],
                            'outcome': out, 'wrote': wrote, 'refs': sess.abstract_refs(), 'detail': detail}) + '\n')
    assert out != 'fail', detail


TEST_HEAD = '''import os
from harness import pytest_lib as _pl
_HERE = os.path.dirname(os.path.abspath(__file__))
'''


def write_regen_project(wd, nsteps, tagged_steps=()):
    os.makedirs(wd, exist_ok=True)
    with open(os.path.join(wd, 'conftest.py'), 'w') as f:
        f.write(CONFTEST % os.path.join(wd, 'ref'))
    lines = [TEST_HEAD, 'from tdda.referencetest import tag', '']
    for i in range(nsteps):
        if i in tagged_steps:
            lines.append('@tag')
        lines.append('def test_s%02d(ref):' % i)
        lines.append('    _pl.step(ref, _HERE, %d)' % i)
        lines.append('')
    with open(os.path.join(wd, 'test_regen.py'), 'w') as f:
        f.write('\n'.join(lines) + '\n')


def regen_flags(rnd, kinds):
    """A pytest command-line tail and the SetRegeneration lines it means."""
    r = rnd.random()
    if r < 0.25:
        return [], []
    if r < 0.5:
        args = ['--write-all']
        if rnd.random() < 0.3:
            args.insert(rnd.randrange(2), '--wquiet')
        return args, [('NoKind', True)]
    ks = rnd.sample(kinds, rnd.randint(1, 3))
    style = rnd.choice(['separate', 'comma', 'mixed'])
    names = [rs.kname(k) for k in ks]          # what the kinds are called on the command line
    if style == 'separate' or len(ks) == 1:
        toks = list(names)
    elif style == 'comma':
        toks = [','.join(names)]
    else:
        toks = [','.join(names[:2])] + names[2:]
    args = ['--write'] + toks
    if rnd.random() < 0.3:
        args = ['--wquiet'] + args
    return args, [(k, True) for k in ks]


def regen_session(rnd, wd, tid0):
    """Up to three consecutive pytest processes on one project (flags, then usually none, ...).
    Returns events (each process = one session with its own tid) and details."""
    ptypes = {'p0': 'string', 'p1': 'textfile', 'p2': 'textfiles', 'p3': 'textfiles', 'p4': 'binary', 'p5': 'dataframe',
              'p6': 'ondisk', 'p7': 'csvframe', 'p8': 'csv2pq', 'p9': 'csvlegacy'}
    cnames = ['c%d' % i for i in range(20)]
    kinds = ['k0', 'k1', 'k2', 'k3']
    variant = rnd.randint(0, 3)
    boot = rs.Session(wd, ptypes, cnames, variant=variant)      # only used to lay out the reference directory
    init = {}
    for p, ty in ptypes.items():
        init[p] = 'c%d' % rnd.randrange(len(boot.pools[ty])) if rnd.random() < 0.6 else 'Absent'
    boot.set_state({}, init)
    boot.RT.regenerate.clear()
    boot.RT.set_defaults(verbose=True)
    nsteps = rnd.randint(3, 8)
    steps = []
    for _ in range(nsteps):
        ty = rnd.choice(['string', 'textfile', 'textfiles', 'binary', 'dataframe', 'ondisk', 'csvframe', 'csv2pq', 'csvlegacy'])
        paths = [p for p, t in ptypes.items() if t == ty]
        if ty == 'textfiles' and rnd.random() < 0.5:
            paths = paths[::-1]
        steps.append({'type': ty, 'kind': rnd.choice(['NoKind'] + kinds), 'paths': paths,
                      'actual': ['c%d' % rnd.randrange(len(boot.pools[ty])) for _ in paths]})
    tagged_steps = [i for i in range(nsteps) if rnd.random() < 0.4]
    write_regen_project(wd, nsteps, tagged_steps)
    events, details = [], {}
    nproc = rnd.randint(2, 3)
    for run in range(nproc):
        tid = tid0 + run
        flags, sets = regen_flags(rnd, kinds) if (run == 0 or rnd.random() < 0.3) else ([], [])
        only_tagged = bool(tagged_steps) and rnd.random() < 0.25
        with open(os.path.join(wd, 'plan.json'), 'w') as f:
            json.dump({'ptypes': ptypes, 'cnames': cnames, 'variant': variant, 'steps': steps, 'run': run}, f)
        before = boot.abstract_refs()
        events.append({'tid': tid, 'seq': 0, 'ev': 'Init', 'refs': before})
        seq = 0
        for k, flag in sets:
            seq += 1
            events.append({'tid': tid, 'seq': seq, 'ev': 'SetRegeneration', 'kind': k, 'flag': flag})
        # the file path goes first: --write takes every following word as a kind
        args = ['test_regen.py'] + (['--tagged'] if only_tagged else []) + flags
        rc, out, err = run_pytest(wd, args, {'TMPDIR': os.path.join(wd, 'tmp')})
        evp = os.path.join(wd, 'events_%d.ndjson' % run)
        got = [json.loads(x) for x in open(evp)] if os.path.exists(evp) else []
        expected_steps = [i for i in range(nsteps) if (not only_tagged or i in tagged_steps)]
        details[tid] = {'pytest_args': args, 'exit': rc, 'steps': steps, 'initial_references': before,
                        'executed_steps': len(got), 'expected_steps': len(expected_steps)}
        if len(got) != len(expected_steps):
            details[tid]['pytest_output'] = (out + err)[-1500:]
        for e in got:
            seq += 1
            events.append(dict(e, tid=tid, seq=seq))
    return events, details
