"""setup_cmd: parse every module under spec/ with SANY (in a scratch dir)."""
import os
import sys
from concurrent.futures import ThreadPoolExecutor

from . import common, tlc


def main():
    mods = sorted(f[:-4] for f in os.listdir(common.SPEC) if f.endswith('.tla'))
    wd = common.subdir('sany')
    tlc.stage(wd)     # once: the parsers below run in parallel and must not see files being rewritten
    bad = 0
    with ThreadPoolExecutor(8) as ex:
        for m, (ok, out) in zip(mods, ex.map(lambda m: tlc.sany(m, wd, staged=True), mods)):
            if not ok and m.endswith('_proofs') and 'module TLAPS' in out:
                # (a proof module; the proof system's library is not where it is expected: tlapm itself parses it in the check)
                print('%-28s %s' % (m, 'skipped (TLAPS library not found for SANY)'))
                continue
            print('%-28s %s' % (m, 'ok' if ok else 'FAILED'))
            if not ok:
                bad += 1
                print(out)
    print('setup: %d modules parsed, %d failed' % (len(mods), bad))
    return 1 if bad else 0


if __name__ == '__main__':
    sys.exit(main())
