"""
Replay of MC_ConstraintSem case rows on the real verify_df / detect_df / discover_df.

One row = one abstract column + its family of constraints.  Every constraint gets its own copy of the
column under its own field name, so one verify_df call (per epsilon x type-checking group) yields the
verdicts of the whole family.  Runs in worker processes (tdda imported from the working tree).
"""
import json
import os
import traceback

import numpy as np
import pandas as pd

from . import constraints_lib as cl


def eps_float(e):
    return e[0] / e[1]


def groups(cons):
    g = {}
    for i, c in enumerate(cons):
        g.setdefault((tuple(c['eps']), c['tc']), []).append(i)
    return g


def build(col, cons, idxs, variant, pool):
    """DataFrame with one copy of the column per constraint index + the constraints dictionary."""
    ser = cl.series(col, variant, pool)
    data = {}
    fields = {}
    for i in idxs:
        c = cons[i]
        name = 'f%d' % i
        data[name] = ser.copy()
        val = cl.con_value(c, col['t'], pool)
        fd = {}
        if c['k'] in ('min', 'max') and c['vt'] == 'date' and not c['isnull'] and col['t'] == 'date':
            # a date-valued bound in a .tdda file is a string next to "type": "date"
            fd['type'] = 'date'
            if isinstance(val, dict):
                val = dict(val, value=str(val['value']))
            else:
                val = str(val)
        fd[c['k']] = val
        fields[name] = fd
    df = pd.DataFrame(data) if data else pd.DataFrame()
    if data:
        df.index = pd.RangeIndex(len(ser))
    return df, {'fields': fields}


def verdict_of(v, name, kind):
    try:
        r = v.fields[name][kind]
    except KeyError:
        return 'absent'
    if r is None:
        return 'none'
    return bool(r)


def replay_row(args):
    """Returns dict with lists: mism (spec mismatches), drift, counts, errors."""
    row, variant, pool, want = args
    from tdda.constraints import verify_df, detect_df, discover_df
    col = row['col']
    cons = row['cons']
    out = {'mism': [], 'drift': [], 'n_verdicts': 0, 'n_flags': 0, 'n_disc': 0, 'nontrivial': 0, 'errors': []}
    try:
        if 'verify' in want or 'detect' in want:
            for (eps, tc), idxs in sorted(groups(cons).items()):
                df, cdict = build(col, cons, idxs, variant, pool)
                # a few constraints are additionally placed on fields the data lacks
                # (a null-valued constraint on a field the data lacks is still a constraint on a field the data lacks)
                missing = [i for i in idxs if not cons[i]['isnull']][:3] + [i for i in idxs if cons[i]['isnull']]
                for i in missing:
                    cdict['fields']['m%d' % i] = {cons[i]['k']: cl.con_value(cons[i], col['t'], pool)}
                    if cons[i]['k'] in ('min', 'max') and cons[i]['vt'] == 'date':
                        v = cdict['fields']['m%d' % i][cons[i]['k']]
                        cdict['fields']['m%d' % i][cons[i]['k']] = (
                            dict(v, value=str(v['value'])) if isinstance(v, dict) else str(v))
                e = eps_float(eps)
                if 'verify' in want:
                    try:
                        with cl.quiet():
                            v = verify_df(df.copy(), cdict, epsilon=e, type_checking=tc, repair=False)
                    except Exception:
                        # isolate the constraints that raise; the rest of the family is still examined
                        v = None
                        for i in idxs:
                            df1, cd1 = build(col, cons, [i], variant, pool)
                            try:
                                with cl.quiet():
                                    v1 = verify_df(df1, cd1, epsilon=e, type_checking=tc, repair=False)
                            except Exception as ex:
                                out['n_verdicts'] += 1
                                if cons[i]['dem']:
                                    out['mism'].append({'clause': 'VerifyRaises', 'kind': cons[i]['k'], 'con': cons[i],
                                                        'error': '%s: %s' % (type(ex).__name__, str(ex)[:200]),
                                                        'eps': list(eps), 'tc': tc})
                                continue
                            got = verdict_of(v1, 'f%d' % i, cons[i]['k'])
                            out['n_verdicts'] += 1
                            if cons[i]['dem'] and got != cons[i]['spec']:
                                out['mism'].append({'clause': 'VerdictIsSpec', 'kind': cons[i]['k'], 'con': cons[i],
                                                    'observed': got, 'expected': cons[i]['spec'],
                                                    'eps': list(eps), 'tc': tc})
                    if v is not None:
                        npass = nfail = 0
                        for i in idxs:
                            c = cons[i]
                            got = verdict_of(v, 'f%d' % i, c['k'])
                            out['n_verdicts'] += 1
                            if got is True:
                                npass += 1
                            elif got is False:
                                nfail += 1
                            if c['dem']:
                                out['nontrivial'] += 1
                                if got != c['spec']:
                                    out['mism'].append({'clause': 'VerdictIsSpec', 'kind': c['k'], 'con': c,
                                                        'observed': got, 'expected': c['spec'],
                                                        'eps': list(eps), 'tc': tc})
                            if got != c['impl'] and not (c['dem'] and got != c['spec']):
                                out['drift'].append({'what': 'verdict differs from transcription', 'con': c,
                                                     'observed': got})
                        for i in missing:
                            got = verdict_of(v, 'm%d' % i, cons[i]['k'])
                            out['n_verdicts'] += 1
                            if got is False:
                                nfail += 1
                            elif got is True:
                                npass += 1
                            if got is not False:
                                out['mism'].append({'clause': 'MissingFieldFails', 'kind': cons[i]['k'],
                                                    'con': cons[i], 'observed': got, 'expected': False})
                        # the date-typed siblings count too
                        extra_pass = extra_fail = 0
                        for name, fd in cdict['fields'].items():
                            if name.startswith('f') and 'type' in fd and len(fd) == 2:
                                g = verdict_of(v, name, 'type')
                                if g is True:
                                    extra_pass += 1
                                elif g is False:
                                    extra_fail += 1
                        if (v.passes, v.failures) != (npass + extra_pass, nfail + extra_fail):
                            out['mism'].append({'clause': 'CountsConsistent', 'kind': 'totals',
                                                'observed': [v.passes, v.failures],
                                                'expected': [npass + extra_pass, nfail + extra_fail]})
                        # per-field counts and the tabular form
                        fr = v.to_frame()
                        for _, r in fr.iterrows():
                            name = r['field']
                            fv = v.fields[name]
                            tr = sum(1 for k in fv if fv[k] is not None and bool(fv[k]))
                            fa = sum(1 for k in fv if fv[k] is not None and not bool(fv[k]))
                            if (fv.passes, fv.failures) != (tr, fa) or (int(r['passes']), int(r['failures'])) != (tr, fa):
                                out['mism'].append({'clause': 'CountsConsistent', 'kind': 'per-field',
                                                    'field': name, 'observed': [fv.passes, fv.failures, int(r['passes']), int(r['failures'])],
                                                    'expected': [tr, fa]})
                                break
                            for k in fv:
                                cell = r[k] if k in fr.columns else None
                                want_cell = None if fv[k] is None else bool(fv[k])
                                got_cell = None if (cell is None or (isinstance(cell, float) and np.isnan(cell))) else bool(cell)
                                if want_cell != got_cell:
                                    out['mism'].append({'clause': 'TabularFormIsVerdicts', 'kind': 'to_frame',
                                                        'field': name, 'constraint': k})
                                    break
                if 'detect' in want:
                    failing = [i for i in idxs if cons[i]['fdem'] and cons[i]['spec'] is False]
                    if not failing or len(col['v']) == 0:
                        continue
                    def check_detect(dv, det, which):
                        for i in which:
                            c = cons[i]
                            name = 'f%d_%s_ok' % (i, cl.SUFFIX[c['k']])
                            dgot = verdict_of(dv, 'f%d' % i, c['k'])
                            if c['dem'] and dgot != c['spec']:
                                out['mism'].append({'clause': 'DetectAgreesWithVerify', 'kind': c['k'], 'con': c,
                                                    'observed': dgot, 'expected': c['spec']})
                            if not c['fdem']:
                                continue
                            if c['spec'] is False:
                                out['n_flags'] += 1
                                if det is None or name not in det.columns:
                                    out['mism'].append({'clause': 'FlagsAreSpec', 'kind': c['k'], 'con': c,
                                                        'observed': 'no flag column', 'expected': c['sflags']})
                                    continue
                                flags = [cl.flag_abstract(x) for x in det[name].tolist()]
                                if flags != list(c['sflags']):
                                    out['mism'].append({'clause': 'FlagsAreSpec', 'kind': c['k'], 'con': c,
                                                        'observed': flags, 'expected': list(c['sflags'])})
                                elif c['iflags'] and flags != list(c['iflags']):
                                    out['drift'].append({'what': 'flags differ from transcription', 'con': c,
                                                         'observed': flags})
                            elif c['spec'] is True and det is not None and name in det.columns:
                                out['mism'].append({'clause': 'NoFlagsForSatisfiedConstraint', 'kind': c['k'], 'con': c,
                                                    'observed': 'flag column present'})
                    try:
                        with cl.quiet():
                            dv = detect_df(df.copy(), cdict, epsilon=e, type_checking=tc, repair=False,
                                           per_constraint=True, write_all=True, output_fields=[])
                        check_detect(dv, dv.detected(), idxs)
                    except Exception:
                        # isolate the constraints whose detection raises
                        for i in [j for j in idxs if cons[j]['fdem']]:
                            df1, cd1 = build(col, cons, [i], variant, pool)
                            try:
                                with cl.quiet():
                                    dv1 = detect_df(df1, cd1, epsilon=e, type_checking=tc, repair=False,
                                                    per_constraint=True, write_all=True, output_fields=[])
                                check_detect(dv1, dv1.detected(), [i])
                            except Exception as ex:
                                out['mism'].append({'clause': 'DetectRaises', 'kind': cons[i]['k'], 'con': cons[i],
                                                    'error': '%s: %s' % (type(ex).__name__, str(ex)[:200]),
                                                    'eps': list(eps), 'tc': tc})
        if 'discover' in want:
            ser = cl.series(col, variant, pool)
            df = pd.DataFrame({'f': ser})
            with cl.quiet():
                cs = discover_df(df, inc_rex=False)
            fd = {} if cs is None else cs.to_dict()['fields'].get('f', {})
            if cs is None or 'f' not in cs.to_dict()['fields']:
                got = None
            else:
                got = cl.abstract_discovery(fd, col['t'], pool)
            out['n_disc'] += 1
            want_d = row['disc']
            if got is None:
                out['mism'].append({'clause': 'DiscoverIsSpec', 'kind': 'nothing-discovered', 'observed': None,
                                    'expected': want_d})
            else:
                for key in row['dkeys']:
                    w = want_d[key]
                    if key == 'allowed':
                        w = sorted(w)
                    if got[key] != w:
                        out['mism'].append({'clause': 'DiscoverIsSpec', 'kind': key, 'observed': got[key],
                                            'expected': w, 'discovered': json.loads(json.dumps(fd, default=str))})
                for key in ('type', 'min', 'max', 'min_length', 'max_length', 'sign', 'max_nulls',
                            'no_duplicates', 'allowed'):
                    w = row['idisc'][key]
                    if key == 'allowed':
                        w = sorted(w)
                    if got[key] != w and key not in row['dkeys']:
                        out['drift'].append({'what': 'discovery differs from transcription', 'key': key,
                                             'observed': got[key], 'impl': w})
    except Exception:
        out['errors'].append(traceback.format_exc()[-1500:])
    return out


def init_worker(repo):
    import sys
    import warnings
    warnings.filterwarnings('ignore')
    if repo not in sys.path:
        sys.path.insert(0, repo)
    os.environ['TDDA_VERIF'] = '1'
