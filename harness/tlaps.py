"""Run the TLA+ proof system on a proof module of spec/ (staged into a scratch directory: tlapm writes its cache next to
the module).  A proof is about the specification only - it says nothing about /repo and can therefore never be a VIOLATION;
its result is recorded in the evidence, and obligations that fail definitely (not a timeout) are a machinery failure."""
import os
import re
import shutil
import subprocess
import time

from . import common, tlc


def prove(module, timeout=600):
    wd = common.subdir('tlaps_%s_%d' % (module, int(time.time() * 1000) % 10**9))
    tlc.stage(wd)
    t0 = time.time()
    out = {'module': module, 'tool': 'tlapm', 'proved': 0, 'failed': None, 'timeout': False}
    try:
        p = subprocess.run(['tlapm', '--cleanfp', module + '.tla'], cwd=wd, stdout=subprocess.PIPE, stderr=subprocess.STDOUT,
                           timeout=timeout)
        text = p.stdout.decode('utf8', 'replace')
        m = re.search(r'All (\d+) obligations? proved', text)
        if m:
            out['proved'], out['failed'] = int(m.group(1)), 0
        else:
            m = re.search(r'(\d+)/(\d+) obligations failed', text)
            if m:
                out['failed'] = int(m.group(1))
                out['proved'] = int(m.group(2)) - int(m.group(1))
            else:
                out['error'] = text[-600:]
    except subprocess.TimeoutExpired:
        out['timeout'] = True
    except OSError as ex:
        out['error'] = 'tlapm could not be started: %s' % ex
    out['wall'] = round(time.time() - t0, 1)
    shutil.rmtree(wd, ignore_errors=True)
    return out


def record(chk, module, theorems, timeout=600):
    """Run the proofs and record them in the evidence of chk."""
    r = prove(module, timeout)
    r['theorems'] = theorems
    chk.coverage.setdefault('tlaps', []).append(r)
    if r.get('failed'):
        chk.machinery_error('%s: %d proof obligations failed (specification and proof out of step)' % (module, r['failed']))
    return r
