"""
Real tdda gentest runs for the Gentest model (C11, C12).

A case is a scratch working directory holding cmd.py (the repeatable command; what it prints / writes /
returns is read from beh.json, so the command line never changes when its behaviour is perturbed),
possibly pre-existing files, and one `tdda gentest` run in a subprocess.
"""
import hashlib
import json
import os
import py_compile
import re
import shutil
import subprocess
import sys

from . import common

CMD_PY = r'''
import json, os, sys
b = json.load(open(os.path.join(os.path.dirname(os.path.abspath(__file__)), 'beh.json'), encoding='utf-8'))
def _t(x):
    return x.replace('{TMPDIR}', os.environ.get('TMPDIR', ''))
sys.stdout.write(_t(b['stdout']))
sys.stderr.write(_t(b['stderr']))
for name, spec in b['files'].items():
    if spec is None:
        continue
    path = name if not name.startswith('$TMPDIR/') else os.path.join(os.environ['TMPDIR'], name[8:])
    path = os.path.expanduser(path)
    if os.path.dirname(path):
        os.makedirs(os.path.dirname(path), exist_ok=True)
    if spec['kind'] == 'text':
        with open(path, 'w', encoding=spec.get('encoding', 'utf-8'), newline='') as f:
            f.write(_t(spec['text']))
    else:
        with open(path, 'wb') as f:
            f.write(bytes(spec['bytes']))
    if spec.get('old_mtime'):
        os.utime(path, (978307200, 978307200))      # as cp -p / tar x / rsync -t do: the content is new, the modification time is not
if b['exit'] < 0:
    # the command as a whole dies from signal -exit: the shell that runs this file is the command gentest started, so it is
    # the shell that has to die (subprocess then reports -N); never anything that is not a shell
    import signal
    sys.stdout.flush(); sys.stderr.flush()
    try:
        parent = open('/proc/%d/comm' % os.getppid()).read().strip()
    except OSError:
        parent = ''
    if parent in ('sh', 'dash', 'bash'):
        os.close(1); os.close(2)
        os.kill(os.getppid(), -b['exit'])
        os._exit(0)
    os._exit(128 - b['exit'])
sys.exit(b['exit'])
'''

PLAIN = ['result: ok', 'total 42 items', 'alpha beta gamma', 'x = 3.5; y = -2', 'naïve café ☃ line', 'tab\there',
         'quote \' and " and \\ backslash', 'regex .* [a-z]+ (x|y) ^$ {2,3}', 'percent %s %d %%', 'braces {} {0} {name}',
         'triple """ quotes \'\'\'', 'trailing space ', '    indented', 'r"raw" b\'bytes\' \\n \\t', 'path/like/this and C:\\dir\\file',
         # dates far from the day of the run are ordinary content: a change on such a line must be noticed
         'expires 12/25/2076 ok', 'issued 03/04/1999 by clerk', 'build 2031-07-04 done', 'since 1 Jan 2001 open']
# line boundaries other than a bare newline inside the text (form feed, a lone carriage return, CR LF, unicode separators)
ODD_BREAKS = ['page one\x0cpage two', 'progress 10%\rprogress 20%', 'crlf line\r', 'ls\u2028ps', 'nel\x85nel', 'fs\x1cfs']
FAR_DATES = ['expires 12/25/2076 ok', 'issued 03/04/1999 by clerk', 'build 2031-07-04 done', 'since 1 Jan 2001 open',
             'valid until 11/30/2088 inclusive']
SPECIFIC = ['generated 2020-02-29 for test', 'at 31/12/1999 23:59:58', 'version 1.2.0 build 15', 'on 31/02/2020 (no such day)',
            '12 Feb 2021 and Feb 30, 2020', '10:15:30 elapsed', 'ip 10.0.0.1 port 8080']


def sha(path):
    with open(path, 'rb') as f:
        return hashlib.sha1(f.read()).hexdigest()


def sha_normalised(path, wd):
    """Content id that does not depend on which scratch directory $TMPDIR pointed to when the file was written."""
    with open(path, 'rb') as f:
        data = f.read()
    base = re.escape((wd + '_tmp').encode('utf-8'))
    data = re.sub(base + rb'/tmp[A-Za-z0-9_]+', b'{TMPDIR}', data)
    data = data.replace((wd + '_tmp').encode('utf-8'), b'{TMPDIR}')
    return hashlib.sha1(data).hexdigest()


def snapshot(d):
    out = {}
    for root, dirs, files in os.walk(d):
        for f in files:
            p = os.path.join(root, f)
            rel = os.path.relpath(p, d)
            if rel.startswith('__pycache__') or rel.endswith('.pyc'):
                continue
            out[rel] = sha_normalised(p, d)
    return out


CONTROL_OK = [True]


def text_of(rnd, nlines, allow_specific=True, token_pool=()):
    """A text whose FIRST line is always a plain line (the one perturbations edit)."""
    lines = [rnd.choice(FAR_DATES) if rnd.random() < 0.3 else rnd.choice(PLAIN)]
    for _ in range(nlines - 1):
        r = rnd.random()
        if r > 0.9:
            lines.append(rnd.choice(ODD_BREAKS if CONTROL_OK[0] else [x for x in ODD_BREAKS if not re.search('[\x00-\x08\x0b\x0c\x0e-\x1f]', x)]))
        elif allow_specific and r < 0.25:
            lines.append(rnd.choice(SPECIFIC))
        elif token_pool and r < 0.4:
            lines.append('token %s here' % rnd.choice(token_pool))
        else:
            lines.append(rnd.choice(PLAIN))
    return '\n'.join(lines) + ('\n' if rnd.random() < 0.85 else '')


def make_case(rnd, wd, shape, tmpdir_tokens_with_one_iteration=True, dated_first_line=None, hint=None):
    """shape: list of output names among 'o1' (text file), 'o2' (binary file).  Returns the case description."""
    os.makedirs(wd, exist_ok=True)
    # (control characters next to $TMPDIR mentions are the known finding D37, recorded under C11: the C12 driver avoids them)
    CONTROL_OK[0] = bool(tmpdir_tokens_with_one_iteration)
    import getpass
    import socket
    # {TMPDIR} is replaced by the command itself with the value of $TMPDIR at the time it runs
    iterations = rnd.choice([1, 2, 2, 3])
    if dated_first_line is not None and iterations == 1:
        iterations = 2
    # a large text output that is plain ASCII for its first 64 KiB and has other characters after that
    big = hint is not None and hint % 7 == 3 and shape in (['o1'], ['o1', 'o2'])
    if big and hint % 2 == 1 and dated_first_line is None:
        iterations = 1
    tokens = [socket.gethostname(), getpass.getuser(), wd]
    try:
        # the machine's address as gentest works it out (127.0.0.1 where the host name resolves to loopback): D40
        ipaddr = socket.gethostbyname(socket.gethostname())
    except Exception:
        ipaddr = None
    if iterations > 1 or tmpdir_tokens_with_one_iteration:
        tokens += ['{TMPDIR}', '{TMPDIR}/scratch.dat']
    files = {}
    names = {}
    if 'o1' in shape:
        names['o1'] = rnd.choice(['out1.txt', 'report.log', 'result.csv', 'ünï.txt'])
        if shape == ['o1'] and hint is not None and hint % 4 == 1:
            # an output in a sub-directory whose name merely begins like gentest's own ref/ directory
            names['o1'] = rnd.choice(['refined/summary.txt', 'reference/out.log', 'refs/r.csv', 'ref_data/t.txt'])
        files[names['o1']] = {'kind': 'text', 'text': text_of(rnd, rnd.randint(1, 4), token_pool=tokens)}
    if 'o1' in shape and rnd.random() < 0.25:
        files[names['o1']]['old_mtime'] = True
    if big:
        files[names['o1']]['text'] = ''.join('line %06d of an ordinary plain log, nothing special here\n' % k_ for k_ in range(rnd.choice([1300, 2600]))) \
            + 'r\u00e9sum\u00e9 \u4e2d\u6587 done\n'
    if 'o4' in shape:
        # two text outputs whose names differ only in characters that are not legal in an identifier
        a, b = rnd.choice([('out-1.txt', 'out_1.txt'), ('a b.csv', 'a_b.csv'), ('report.1.log', 'report-1.log')])
        names['o1'], names['o4'] = a, b
        files = {a: {'kind': 'text', 'text': text_of(rnd, rnd.randint(1, 3), token_pool=tokens)},
                 b: {'kind': 'text', 'text': text_of(rnd, rnd.randint(1, 3), allow_specific=False)}}
    if 'o6' in shape:
        # an output in the user's home directory, named home-relative (no shell expands the ~ for gentest)
        names['o6'] = '~/results/summary.csv'
        files[names['o6']] = {'kind': 'text', 'text': text_of(rnd, rnd.randint(1, 3), allow_specific=False)}
    if 'o5' in shape:
        # two outputs with the same base name in different directories (found by directory), different contents
        a, b = rnd.choice([('out/north/Report.txt', 'out/south/Report.txt'), ('out/a/data.csv', 'out/b/data.csv'),
                           ('Out/x/Summary.log', 'Out/y/Summary.log')])
        names['o1'], names['o5'] = a, b
        files = {a: {'kind': 'text', 'text': text_of(rnd, rnd.randint(1, 3), token_pool=tokens)},
                 b: {'kind': 'text', 'text': 'second ' + text_of(rnd, rnd.randint(1, 3), allow_specific=False)}}
    if 'o2' in shape:
        names['o2'] = rnd.choice(['data.png', 'blob.bin', 'image.jpg', 'archive.dat'])
        # sizes: small, and exact multiples of a typical block size
        nbytes = rnd.choice([rnd.randint(1, 40), rnd.randint(1, 40), 4096 - 3, 8192 - 3])
        files[names['o2']] = {'kind': 'binary', 'bytes': [rnd.randrange(256) for _ in range(nbytes)] + [0, 255, 128]}
    if 'o3' in shape:
        names['o3'] = '$TMPDIR/tmpout.txt'
        files[names['o3']] = {'kind': 'text', 'text': text_of(rnd, rnd.randint(1, 3), allow_specific=False)}
    beh = {'stdout': text_of(rnd, rnd.randint(0, 4), token_pool=tokens) if rnd.random() < 0.85 else '',
           'stderr': text_of(rnd, rnd.randint(1, 3), allow_specific=False, token_pool=tokens) if rnd.random() < 0.5 else '',
           'files': files, 'exit': rnd.choice([0, 0, 0, 3])}
    if beh['exit'] == 3 and len(beh['stdout']) % 3 == 0:
        # ... or ends through a signal (SIGTERM, SIGKILL): the status subprocess reports is -N (no draw: the other cases stay as they were)
        beh['exit'] = -15 if len(beh['stderr']) % 2 == 0 else -9
    if rnd.random() < 0.12:
        # a log whose every line is stamped with today's date (five or more stamps)
        import datetime as _dt
        today = _dt.date.today()
        fmt = rnd.choice(['%Y-%m-%d', '%d/%m/%Y', '%Y-%m-%d 10:%M:00'])
        beh['stdout'] = ''.join('%s step %d done\n' % (today.strftime(fmt).replace('%M', '%02d' % k_), k_) for k_ in range(rnd.randint(5, 7)))
    if dated_first_line is not None:
        # a first line of standard output that carries a date decades away from today (ordinary content)
        rest = beh['stdout'].split('\n', 1)[1] if '\n' in beh['stdout'] else ''
        beh['stdout'] = dated_first_line + '\n' + rest
    if ipaddr and beh['stdout'].strip() and rnd.random() < 0.25:         # (never as the FIRST line: perturbations edit the first line, which carries no machine token)
        beh['stdout'] = beh['stdout'] + ('' if beh['stdout'].endswith('\n') or not beh['stdout'] else '\n') + 'listening on %s port 80\n' % ipaddr
    if beh['stderr'] and rnd.random() < 0.6:
        # a stderr line that mentions the machine (host / user / working directory)
        beh['stderr'] = beh['stderr'].rstrip('\n') + '\nwarning: running as %s\n' % rnd.choice(tokens[:3])
    with open(os.path.join(wd, 'cmd.py'), 'w', encoding='utf-8') as f:
        f.write(CMD_PY)
    with open(os.path.join(wd, 'beh.json'), 'w', encoding='utf-8') as f:
        json.dump(beh, f)
    # pre-existing files
    pre = rnd.choice(['none', 'unrelated', 'stale', 'same-named', 'unrelated+stale'])
    if 'unrelated' in pre:
        with open(os.path.join(wd, 'keepme.cfg'), 'w') as f:
            f.write('precious\n')
        if rnd.random() < 0.6:
            # as after cp -p / rsync -t / tar x: modification time in the past, change time now
            os.utime(os.path.join(wd, 'keepme.cfg'), (978307200, 978307200))
        os.makedirs(os.path.join(wd, 'sub'), exist_ok=True)
        with open(os.path.join(wd, 'sub', 'nested.dat'), 'wb') as f:
            f.write(b'\x00\x01nested')
    if 'stale' in pre:
        with open(os.path.join(wd, 'test_job.py'), 'w') as f:
            f.write('# an older generated script\n')
        os.makedirs(os.path.join(wd, 'ref', 'job'), exist_ok=True)
        with open(os.path.join(wd, 'ref', 'job', 'STDOUT'), 'w') as f:
            f.write('old reference\n')
    if pre == 'same-named' and names:
        n = names.get('o1') or names.get('o2')
        os.makedirs(os.path.dirname(os.path.join(wd, n)), exist_ok=True)
        with open(os.path.join(wd, n), 'w') as f:
            f.write('left over from an earlier run\n')
    flags = []
    flags += ['-n', str(iterations)]
    no_stdout = rnd.random() < 0.15 and dated_first_line is None
    no_stderr = rnd.random() < 0.15
    if no_stdout:
        flags.append('--no-stdout')
    if no_stderr:
        flags.append('--no-stderr')
    nonzero = beh['exit'] != 0 and rnd.random() < 0.8
    if nonzero or rnd.random() < 0.1:
        flags.append('--non-zero-exit')
        nonzero = True
    refs_mode = rnd.choice(['dir', 'named', 'glob']) if names and 'o3' not in names else 'dir'
    if 'o4' in names and hint is not None and hint % 3 == 1:
        # outputs named by a wildcard, one of whose matches is there before generation (left over from an earlier run)
        refs_mode = 'glob'
        n = names['o1']
        with open(os.path.join(wd, n), 'w') as f:
            f.write('left over from an earlier run\n')
    if 'o6' in names:
        refs_mode = 'named'
    if 'o5' in names:
        refs_mode = rnd.choice(['outdir', 'named'])
    refs = []
    if refs_mode == 'named':
        refs = [names[k] for k in sorted(names)]
    elif refs_mode == 'outdir':
        refs = [names['o1'].split('/')[0]]
    elif refs_mode == 'glob':
        refs = [(os.path.dirname(names[k]) + '/' if '/' in names[k] else '') + '*.' + names[k].rsplit('.', 1)[1] for k in sorted(names)]
        refs = list(dict.fromkeys(refs))
    if refs and refs_mode in ('named', 'glob') and rnd.random() < 0.2:
        refs.append(rnd.choice(['*.nomatch', 'rejects/*.csv', 'no?such.log']))        # a wildcard that matches nothing (ignored with a warning)
    script = rnd.choice(['test_job.py', 'test_job', os.path.join(wd, 'test_job.py')])
    # arguments the command ignores, but which are part of the command TEXT that gentest records in the script
    cmd_args = rnd.choice(['', '', '', " 'C:\\Users\\xavier\\notes.txt'", " '\\d+ \\N \\x'", ' "two words" --flag=1', " 'it is 100%% {ok}'",
                           " 'tab\\there' '\\u12'"])
    # an earlier, unrelated generation in the same Python process (the gentest() API called twice), whose command leaves a
    # file in the scratch directory
    prelim = rnd.random() < 0.2
    if prelim:
        with open(os.path.join(wd, 'pre.py'), 'w') as f:
            f.write("import os\nopen(os.path.join(os.environ['TMPDIR'], 'alpha.txt'), 'w').write('left by an earlier command\\n')\nprint('pre')\n")
    return {'wd': wd, 'beh': beh, 'names': names, 'tokens': tokens, 'cmd_args': cmd_args, 'prelim': prelim, 'pre': pre, 'flags': flags, 'iterations': iterations, 'no_stdout': no_stdout,
            'no_stderr': no_stderr, 'nonzero': nonzero, 'refs': refs, 'refs_mode': refs_mode, 'script': script}


def run_gentest(case, timeout=180):
    env = common.child_env({'HOME': os.environ.get('HOME', '/root')})
    gtmp = os.path.join(case['wd'] + '_tmp')
    os.makedirs(gtmp, exist_ok=True)
    env['TMPDIR'] = gtmp
    cmdline = '%s cmd.py%s' % (common.PY, case.get('cmd_args', ''))
    home = case['wd'] + '_home'
    os.makedirs(home, exist_ok=True)
    env['HOME'] = home
    calls = [case['flags'] + [cmdline, case['script']] + case['refs']]
    if case.get('prelim'):
        calls.insert(0, ['-n', '2', '%s pre.py' % common.PY, 'test_first.py'])
    driver = ('import sys, json\nfrom tdda.referencetest.gentest import gentest_wrapper\n'
              'for a in json.loads(sys.argv[1]):\n    gentest_wrapper(a)\n')
    argv = [common.PY, '-W', 'ignore', '-c', driver, json.dumps(calls)]
    p = subprocess.run(argv, cwd=case['wd'], env=env, stdout=subprocess.PIPE, stderr=subprocess.PIPE, text=True, timeout=timeout)
    return p.returncode, p.stdout, p.stderr


def earlier_generation(case, script='test_Job.py', timeout=180):
    """An earlier, separate gentest run in the same working directory, for another command, under a script name that differs
    from the later one in letter case only; what it left (script, ref/<Name>/...) is there before the generation under test."""
    env = common.child_env({'HOME': case['wd'] + '_home'})
    gtmp = os.path.join(case['wd'] + '_tmp')
    os.makedirs(gtmp, exist_ok=True)
    os.makedirs(case['wd'] + '_home', exist_ok=True)
    env['TMPDIR'] = gtmp
    with open(os.path.join(case['wd'], 'pre.py'), 'w') as f:
        f.write("print('first line of the earlier command')\nprint('second line')\n")
    driver = ('import sys, json\nfrom tdda.referencetest.gentest import gentest_wrapper\n'
              'gentest_wrapper(json.loads(sys.argv[1]))\n')
    p = subprocess.run([common.PY, '-W', 'ignore', '-c', driver, json.dumps(['-n', '2', '%s pre.py' % common.PY, script])],
                       cwd=case['wd'], env=env, stdout=subprocess.PIPE, stderr=subprocess.PIPE, text=True, timeout=timeout)
    return p.returncode


def run_command_by_hand(case, timeout=120):
    """What a user does between changing the command and running the tests: runs the command once, in the working directory."""
    env = common.child_env({'HOME': case['wd'] + '_home'})
    env['TMPDIR'] = os.path.join(case['wd'] + '_tmp')
    subprocess.run('%s cmd.py%s' % (common.PY, case.get('cmd_args', '')), shell=True, cwd=case['wd'], env=env,
                   stdout=subprocess.DEVNULL, stderr=subprocess.DEVNULL, timeout=timeout)


RE_TEST = re.compile(r'^(test_\w+) \(.*\) \.\.\. (ok|FAIL|ERROR|skipped.*)$', re.M)


def run_script(case, timeout=180, script='test_job.py'):
    """Runs the generated test script; returns {test name: 'pass'|'fail'|'error'} and raw output."""
    env = common.child_env({'HOME': os.environ.get('HOME', '/root')})
    env['TMPDIR'] = os.path.join(case['wd'] + '_tmp')
    env['HOME'] = case['wd'] + '_home'
    env.pop('TMPDIR_SET_BY_GENTEST', None)
    p = subprocess.run([common.PY, '-W', 'ignore', script, '-v'], cwd=case['wd'], env=env, stdout=subprocess.PIPE,
                       stderr=subprocess.PIPE, text=True, timeout=timeout)
    out = p.stderr + '\n' + p.stdout
    res = {}
    for m in RE_TEST.finditer(out):
        res[m.group(1)] = {'ok': 'pass', 'FAIL': 'fail', 'ERROR': 'error'}.get(m.group(2), 'skip')
    return res, out, p.returncode


def test_name_for(filename):
    filename = os.path.basename(filename)
    return 'test_' + ''.join(c if c.isalnum() else '_' for c in filename)


def set_behaviour(case, beh):
    with open(os.path.join(case['wd'], 'beh.json'), 'w', encoding='utf-8') as f:
        json.dump(beh, f)


def edit_first_line(text, rnd, how=None):
    """Change one character of the first (plain) line, or add / remove a line."""
    lines = text.split('\n')
    how = how or rnd.choice(['char', 'char', 'addline', 'dropline', 'nonascii'])
    if how == 'nonascii':
        # one character that an ASCII reading of the text cannot decode
        lines[0] = lines[0] + rnd.choice(['\u00b2', '\u00a0', '\u00e9'])
        return '\n'.join(lines)
    if how == 'char' or not text:
        if not lines[0]:
            lines[0] = 'X'
        else:
            alpha = [j for j, ch in enumerate(lines[0]) if ch.isalpha()]
            i = rnd.choice(alpha) if alpha else rnd.randrange(len(lines[0]))
            c = lines[0][i]
            lines[0] = lines[0][:i] + ('#' if c != '#' else '@') + lines[0][i + 1:]
    elif how == 'addline':
        lines.insert(1 if len(lines) > 1 else len(lines), 'an entirely new plain line')
    else:
        if len([l for l in lines if l]) > 1:
            lines.pop(0)
        else:
            lines[0] = lines[0] + ' changed'
    return '\n'.join(lines)


RE_METHOD = re.compile(r"def (test_\w+)\(self\):(?:(?!\n    def ).)*?self\.assert\w+\(\s*os\.path\.join\(self\.(?:cwd|tmpdir), '((?:[^'\\\\]|\\\\.)*)'\)"
                       r"(?:,\s*os\.path\.join\(self\.refdir, '((?:[^'\\\\]|\\\\.)*)'\))?", re.S)


def _unq(x):
    try:
        return eval("'" + x + "'")
    except Exception:
        return x


def script_map(case):
    """{output file as written in the script (path relative to cwd or $TMPDIR): {'test': method name, 'ref': reference file name}};
    a later definition of the same method name replaces an earlier one, as in Python."""
    try:
        text = open(os.path.join(case['wd'], 'test_job.py'), encoding='utf-8').read()
    except OSError:
        return {}
    out = {}
    for m in RE_METHOD.finditer(text):
        fname = _unq(m.group(2))
        out[fname] = {'test': m.group(1), 'ref': _unq(m.group(3)) if m.group(3) else os.path.basename(fname)}
    return out


def script_test_map(case):
    """{output file (relative path and, when unambiguous, base name): test method name}."""
    sm = script_map(case)
    out = {}
    for fname, v in sm.items():
        out[fname] = v['test']
    bases = {}
    for fname in sm:
        bases.setdefault(os.path.basename(fname), []).append(fname)
    for b, fl in bases.items():
        if len(fl) == 1:
            out.setdefault(b, sm[fl[0]]['test'])
    return out


def lookup(m, name, default=None):
    """Entry for an output named `name` (relative path, '$TMPDIR/x' or base name) in a map keyed as the script writes it."""
    key = name[8:] if name.startswith('$TMPDIR/') else name
    if key.startswith('~'):
        key = os.path.basename(key)
    if key in m:
        return m[key]
    b = os.path.basename(key)
    cands = [k for k in m if os.path.basename(k) == b]
    if len(cands) == 1:
        return m[cands[0]]
    return default


def edit_token_line(text, rnd, token, tokens=()):
    """Remove a whole line that mentions a machine-specific token (half of the time, if there is more than one such line or
    other lines remain), or add one: mentioning a token the text mentions already if there is one (so that the generated
    test carries an exclusion for it), else `token`."""
    lines = text.split('\n')
    toks = [t for t in list(tokens) + [token] if t and not t.startswith('{')]
    idx = [i for i, l in enumerate(lines) if any(t in l for t in toks)]
    if idx and rnd.random() < 0.5:
        lines.pop(rnd.choice(idx))
        return '\n'.join(lines), 'line with a machine-specific token removed'
    present = [t for t in toks if t in text]
    if present:
        token = rnd.choice(present)
    lines.insert(1 if len(lines) > 1 else len(lines), 'note: ' + token + ' seen')
    if len(lines) == 1 or (len(lines) == 2 and lines[0] == ''):
        return 'note: ' + token + ' seen\n' + text, 'line with a machine-specific token added'
    return '\n'.join(lines), 'line with a machine-specific token added'


def edit_into_token(text, token):
    """Turn the first line into one that mentions the machine-specific token (same number of lines), provided another
    line already mentions it (so that the generated test carries an exclusion for it).  Returns (text, done)."""
    lines = text.split('\n')
    if len(lines) < 2 or token in lines[0] or not any(token in l for l in lines[1:]):
        return text, False
    lines[0] = 'STATUS: CANNOT WRITE %s/ITEMS.db' % token
    return '\n'.join(lines), True
