"""
Real sessions for RefLoc (C10): several ReferenceTest instances, class-level default locations, per-instance
locations, relative reference names; every assertion records which files under the watched directories changed.
"""
import contextlib
import hashlib
import io
import os
import shutil

DIRS = ['dA', 'dB', 'dC']
NAMES = {'n1': 'result.txt', 'n2': 'other file ü.txt'}
CONTENT = {'c1': 'first content\nline 2\n', 'c2': 'second content ☃\n', 'c3': 'third\r\ncontent'}
KINDS = ['k1', 'k2']


class Fail(Exception):
    pass


def _assert_fn(x, msg):
    if not x:
        raise Fail(msg)


def stat_all(root):
    out = {}
    for d in DIRS:
        for n, fn in NAMES.items():
            p = os.path.join(root, d, fn)
            if os.path.exists(p):
                st = os.stat(p)
                with open(p, 'rb') as f:
                    out[(d, n)] = (st.st_mtime_ns, st.st_size, hashlib.sha1(f.read()).hexdigest())
            else:
                out[(d, n)] = None
    return out


def record_sessions(rnd, nsessions, root, tid0=0):
    from tdda.referencetest.referencetest import ReferenceTest
    events, details = [], {}
    for s in range(nsessions):
        tid = tid0 + s
        wd = os.path.join(root, 'loc%d' % s)
        for d in DIRS:
            os.makedirs(os.path.join(wd, d), exist_ok=True)
        os.makedirs(os.path.join(wd, 'tmp'), exist_ok=True)
        ReferenceTest.regenerate.clear()
        saved = dict(ReferenceTest.default_data_locations)
        ReferenceTest.default_data_locations.clear()
        ReferenceTest.set_defaults(verbose=False, tmp_dir=os.path.join(wd, 'tmp'))
        insts = {}
        mirror_cls = {}          # the driver's own bookkeeping, only used to avoid unresolvable assertions
        mirror = {}
        seq = 0
        events.append({'tid': tid, 'seq': 0, 'ev': 'Init'})
        log = []
        try:
            # the documented shape: a default for everything, then instances, then per-instance settings
            steps = ['default'] + [rnd.choice(['default', 'new', 'new', 'setloc', 'setloc', 'assert', 'assert', 'assert'])
                                   for _ in range(rnd.randint(5, 14))]
            for st in steps:
                seq += 1
                if st == 'default':
                    k = rnd.choice(['NoKind', 'NoKind'] + KINDS) if mirror_cls else 'NoKind'
                    d = rnd.choice(DIRS)
                    ReferenceTest.set_default_data_location(os.path.join(wd, d), kind=None if k == 'NoKind' else k)
                    mirror_cls[k] = d
                    events.append({'tid': tid, 'seq': seq, 'ev': 'SetDefault', 'kind': k, 'dir': d})
                elif st == 'new':
                    free = [i for i in ('i1', 'i2', 'i3') if i not in insts]
                    if not free:
                        continue
                    i = free[0]
                    insts[i] = ReferenceTest(_assert_fn)
                    mirror[i] = dict(mirror_cls)
                    events.append({'tid': tid, 'seq': seq, 'ev': 'NewInstance', 'inst': i})
                elif st == 'setloc':
                    if not insts:
                        continue
                    i = rnd.choice(sorted(insts))
                    k = rnd.choice(['NoKind', 'NoKind'] + KINDS)
                    d = rnd.choice(DIRS)
                    insts[i].set_data_location(os.path.join(wd, d), kind=None if k == 'NoKind' else k)
                    mirror[i][k] = d
                    events.append({'tid': tid, 'seq': seq, 'ev': 'SetLocation', 'inst': i, 'kind': k, 'dir': d})
                else:
                    if not insts:
                        continue
                    i = rnd.choice(sorted(insts))
                    k = rnd.choice(['NoKind'] + KINDS)
                    if mirror[i].get(k) is None and mirror[i].get('NoKind') is None:
                        continue
                    n = rnd.choice(sorted(NAMES))
                    c = rnd.choice(sorted(CONTENT))
                    regen = rnd.random() < 0.5
                    ReferenceTest.regenerate.clear()
                    if regen:
                        ReferenceTest.set_regeneration()
                    for key, v in stat_all(wd).items():
                        if v is not None:
                            p = os.path.join(wd, key[0], NAMES[key[1]])
                            os.utime(p, ns=(946684800 * 10**9, 946684800 * 10**9))
                    before = stat_all(wd)
                    detail = ''
                    try:
                        with contextlib.redirect_stdout(io.StringIO()), contextlib.redirect_stderr(io.StringIO()):
                            insts[i].assertStringCorrect(CONTENT[c], NAMES[n], kind=None if k == 'NoKind' else k)
                        outcome = 'ok'
                    except (Fail, AssertionError) as ex:
                        outcome, detail = 'fail', str(ex)[:200]
                    except Exception as ex:
                        outcome, detail = 'error', '%s: %s' % (type(ex).__name__, str(ex)[:200])
                    after = stat_all(wd)
                    wrote = sorted([list(key) for key in after if after[key] != before[key]])
                    events.append({'tid': tid, 'seq': seq, 'ev': 'Assert', 'inst': i, 'kind': k, 'name': n, 'content': c,
                                   'regen': regen, 'wrote': wrote, 'outcome': outcome, 'detail': detail})
                log.append(events[-1])
        finally:
            ReferenceTest.regenerate.clear()
            ReferenceTest.default_data_locations.clear()
            ReferenceTest.default_data_locations.update(saved)
            ReferenceTest.set_defaults(verbose=True)
            shutil.rmtree(wd, ignore_errors=True)
        details[tid] = log
    return events, details
