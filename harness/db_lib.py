"""SQLite sessions for DbSession (C08, C07 on the SQL side)."""
import datetime
import json
import os
import sqlite3

from . import constraints_lib as cl

SQLTYPE = {'int': ['INTEGER', 'BIGINT', 'INT', 'SMALLINT', 'TINYINT'], 'real': ['REAL', 'FLOAT'], 'bool': ['BOOLEAN'], 'date': ['DATETIME', 'TIMESTAMP'],
           'string': ['TEXT', 'VARCHAR']}


def sqlvalue(t, v, pool=0):
    if v == cl.NULL:
        return None
    x = cl.scalar(t, v, pool)
    if t == 'date':
        return x.strftime('%Y-%m-%d %H:%M:%S')
    if t == 'bool':
        return 1 if x else 0
    return x


def connect(path):
    from tdda.constraints.db.drivers import database_connection
    return database_connection(dbtype='sqlite', db=path)


def make_table(db, name, colname, sqltype, values, shape='plain'):
    """shape 'composite': the column is one member of a two-column PRIMARY KEY (its own values may repeat);
    'pk': the column alone is declared PRIMARY KEY (only used when its values allow it)."""
    cur = db.connection.cursor()
    q = colname.replace('"', '""')
    if shape == 'composite':
        cur.execute('CREATE TABLE %s ("%s" %s, "line_no" INTEGER, PRIMARY KEY ("%s", "line_no"))' % (name, q, sqltype, q))
        cur.executemany('INSERT INTO %s VALUES (?, ?)' % name, [(v, i + 1) for i, v in enumerate(values)])
    else:
        cur.execute('CREATE TABLE %s ("%s" %s)' % (name, q, sqltype))
        cur.executemany('INSERT INTO %s VALUES (?)' % name, [(v,) for v in values])
    db.connection.commit()


def discover_and_verify(db, table, tddapath, rex):
    """Returns (discovered fields dict or None, failed list [(field, kind)], raised)."""
    from tdda.constraints.db.constraints import discover_db_table, verify_db_table
    with cl.quiet():
        cs = discover_db_table('sqlite', db, table, inc_rex=rex)
    if cs is None:
        return None, [], 'none'
    with open(tddapath, 'w', encoding='utf-8') as f:
        f.write(cs.to_json())
    return cs.to_dict()['fields'], None, 'none'


def verify(db, table, tddapath):
    from tdda.constraints.db.constraints import verify_db_table
    with cl.quiet():
        v = verify_db_table('sqlite', db, table, tddapath, testing=True)
    failed = []
    for f, fv in v.fields.items():
        if f == 'line_no':
            continue            # (the other member of a composite key: not the column under test)
        for k in fv:
            if fv[k] is not None and not bool(fv[k]):
                failed.append(k)
    return sorted(set(failed)), int(v.failures)
