"""
Recorded detection sessions for Trace_DetectSession (C06): several detect_df runs on one output path,
stale files planted in between, all option combinations.
"""
import os
import random

import numpy as np
import pandas as pd

from . import constraints_lib as cl


def base_frame(rnd, nrows):
    """A frame with an id column and 1-3 data columns of mixed types."""
    data = {'id': list(range(nrows))}
    ncols = rnd.randint(1, 3)
    for c in range(ncols):
        kind = rnd.choice(['real', 'int', 'string', 'date', 'bool'])
        name = '%s%d' % (kind[0], c)
        if c > 0 and rnd.random() < 0.3:
            # a field whose name extends another field's name (amount / amount_net)
            name = '%s_%s' % (list(data)[-1], name)
        if kind == 'real':
            vals = [rnd.choice([-2.5, -1.0, 0.0, 0.5, 1.0, 2.0, 3.5, 10.0]) for _ in range(nrows)]
            if rnd.random() < 0.4 and nrows:
                vals[rnd.randrange(nrows)] = np.nan
            data[name] = pd.Series(vals, dtype='float64')
        elif kind == 'int':
            vals = [rnd.randint(-3, 9) for _ in range(nrows)]
            if rnd.random() < 0.3 and nrows:
                vals[rnd.randrange(nrows)] = None
                data[name] = pd.Series([pd.NA if v is None else v for v in vals], dtype='Int64')
            else:
                data[name] = pd.Series(vals, dtype='int64')
        elif kind == 'string':
            pool = rnd.choice([['a', 'b', 'bc', 'bcd', ''], ['é', 'üñ', 'x☃', 'zz'], ['r1', 'r2', 'r3', 'r4', 'r5', 'r6']])
            vals = [rnd.choice(pool) for _ in range(nrows)]
            if rnd.random() < 0.4 and nrows:
                vals[rnd.randrange(nrows)] = None
            data[name] = pd.Series(vals, dtype=object)
        elif kind == 'date':
            vals = [pd.Timestamp('2020-01-01') + pd.Timedelta(days=rnd.randint(0, 30)) for _ in range(nrows)]
            if rnd.random() < 0.3 and nrows:
                vals[rnd.randrange(nrows)] = pd.NaT
            data[name] = pd.Series(pd.to_datetime(vals))
        else:
            data[name] = pd.Series([rnd.random() < 0.5 for _ in range(nrows)], dtype=bool)
    return pd.DataFrame(data)


def perturb(rnd, df):
    """Change a few cells so that some discovered constraint is (probably) violated."""
    df = df.copy()
    cols = [c for c in df.columns if c != 'id']
    for _ in range(rnd.randint(1, 3)):
        c = rnd.choice(cols)
        i = rnd.randrange(len(df))
        kind = c.rsplit('_', 1)[-1][0]
        if kind == 'r':
            df.loc[i, c] = rnd.choice([-100.0, 100.0, np.nan, 0.25])
        elif kind == 'i':
            if str(df[c].dtype) == 'Int64':
                df.loc[i, c] = rnd.choice([-100, 100, pd.NA])
            else:
                df.loc[i, c] = rnd.choice([-100, 100])
        elif kind == 's':
            df.loc[i, c] = rnd.choice(['a-very-long-string', 'NEW', None, df[c].iloc[(i + 1) % len(df)]])
        elif kind == 'd':
            df.loc[i, c] = rnd.choice([pd.Timestamp('1999-01-01'), pd.Timestamp('2030-01-01'), pd.NaT])
        else:
            pass
    return df


OPTION_SPACE = {
    'per_constraint': [False, True],
    'write_all': [False, True],
    'output_fields': [None, [], ['id']],
    'index': [False, True],
    'in_place': [False, True],
    'interleave': [False, True],
    'boolean_ints': [False, True],
    'rownumber_is_index': [True, True, False],      # False: the file-based entry points' RowNumber column (1-based position)
}


def frames_equal(a, b):
    if list(a.columns) != list(b.columns) or len(a) != len(b):
        return False
    # the index is part of the caller's frame: its labels, its name(s), the name of the column axis
    if list(a.index) != list(b.index) or list(a.index.names) != list(b.index.names) or list(a.columns.names) != list(b.columns.names):
        return False
    for c in a.columns:
        x, y = a[c], b[c]
        if str(x.dtype) != str(y.dtype):
            return False
        for u, v in zip(x.tolist(), y.tolist()):
            un, vn = pd.isna(u), pd.isna(v)
            if un != vn or (not un and u != v):
                return False
    return True


def labels_of(det):
    """Which records a detection frame holds: by its id column, its Index column, or (neither written) its own index."""
    if det is None:
        return []
    for key in ('id', 'Index'):
        if key in det.columns:
            return [int(x) for x in det[key].tolist()]
    return [int(x) for x in det.index.tolist()]


def one_run(rnd, df, cdict, outpath, opts, eps):
    """Runs the probe (flags) and the real detection; returns the Detect event fields."""
    from tdda.constraints import detect_df
    ev = {'raised': 'none'}
    n = len(df)
    # records are identified by their index label (= the id column); events speak of positions
    pos = {int(lab): i for i, lab in enumerate(df.index.tolist())}
    ev['nrows'] = n
    # probe: per-constraint flags of the failed constraints, all records
    with cl.quiet():
        pv = detect_df(df.copy(), cdict, epsilon=eps, per_constraint=True, write_all=True, output_fields=[])
    pdet = pv.detected()
    flagcols = [] if pdet is None else [c for c in pdet.columns if c.endswith('_ok')]
    ev['flags'] = [[cl.flag_abstract(x) for x in pdet[c].tolist()] for c in flagcols]
    ev['flagcols'] = flagcols
    work = df.copy()
    before = df.copy()
    kw = dict(opts)
    try:
        with cl.quiet():
            v = detect_df(work, cdict, epsilon=eps, outpath=outpath, **kw)
    except Exception as ex:
        ev['raised'] = '%s: %s' % (type(ex).__name__, str(ex)[:150])
        v = None
    ev['withpath'] = outpath is not None
    ev['inplace'] = bool(opts['in_place'])
    ev['writeall'] = bool(opts['write_all'])
    if v is None:
        ev.update(rowcounts_ok=True, anyfailed=True, nfail=[], npass=0, nfailrec=0, outrows=[], hasdetection=False,
                  fileexists=bool(outpath and os.path.exists(outpath)), filerows=[], inputchanged=False)
        return ev
    ev['anyfailed'] = v.failures > 0
    det = v.detected()
    ev['hasdetection'] = v.detection is not None
    if v.detection is not None:
        ev['npass'] = int(v.detection.n_passing_records)
        ev['nfailrec'] = int(v.detection.n_failing_records)
        # n_failures per record: from the write_all probe when this run filtered records
        if det is not None and 'n_failures' in det.columns and len(det) == n:
            ev['nfail'] = [int(x) for x in det['n_failures'].tolist()]
        else:
            ev['nfail'] = [int(x) for x in pdet['n_failures'].tolist()] if pdet is not None else []
            if det is not None and 'n_failures' in det.columns:
                # the filtered frame must carry the same counts on the rows it kept
                for idx, x in zip(labels_of(det), det['n_failures'].tolist()):
                    if ev['nfail'][pos[int(idx)]] != int(x):
                        ev['nfail'][pos[int(idx)]] = int(x)
        ev['outrows'] = [pos.get(int(i), 10**6 + int(i)) + 1 for i in labels_of(det)]
    else:
        ev.update(npass=0, nfailrec=0, nfail=[], outrows=[])
    ev['fileexists'] = bool(outpath and os.path.exists(outpath))
    ev['filerows'] = []
    if ev['fileexists']:
        try:
            if outpath.endswith('.parquet'):
                fdf = pd.read_parquet(outpath)
            else:
                fdf = pd.read_csv(outpath)
            key = 'id' if 'id' in fdf.columns else ('Index' if 'Index' in fdf.columns else None)
            if key:
                ev['filerows'] = [pos.get(int(x), 10**6 + int(x)) + 1 for x in fdf[key].tolist()]
                if 'RowNumber' in fdf.columns and [int(x) for x in fdf['RowNumber'].tolist()] != ev['filerows']:
                    ev['raised'] = 'output file: RowNumber and %s name different records' % key
            elif 'RowNumber' in fdf.columns:
                ev['filerows'] = [int(x) for x in fdf['RowNumber'].tolist()]
            else:
                ev['raised'] = 'output file has neither id nor Index column'
            ev['filecols'] = [str(c) for c in fdf.columns]
        except Exception as ex:
            ev['raised'] = 'output file unreadable: %s' % type(ex).__name__
    ev['inputchanged'] = not frames_equal(work, before)
    # in the outputs themselves a record's failure count is its number of false flags
    ev['rowcounts_ok'] = True
    try:
        if det is not None and 'n_failures' in det.columns:
            okcols = [c for c in det.columns if str(c).endswith('_ok')]
            if okcols:
                for j in range(len(det)):
                    nf = sum(1 for c in okcols for x in [det[c].iloc[j]]
                             if (x is False or (hasattr(x, 'dtype') and not pd.isna(x) and not bool(x)) or x in ('false', '0', 0) and x is not None and not (isinstance(x, float) and pd.isna(x)))
                             and not (isinstance(x, float) and pd.isna(x)))
                    if nf != int(det['n_failures'].iloc[j]):
                        ev['rowcounts_ok'] = False
        if opts['in_place'] and ev['anyfailed'] and v.detection is not None:
            if 'n_failures' not in work.columns:
                ev['rowcounts_ok'] = False
            else:
                got = [(-1 if pd.isna(x) else int(x)) for x in work['n_failures'].tolist()]
                if got != ev['nfail']:
                    ev['rowcounts_ok'] = False
                    ev['inplace_counts'] = got
    except Exception as ex:
        ev['rowcounts_ok'] = False
        ev['rowcounts_error'] = '%s: %s' % (type(ex).__name__, str(ex)[:120])
    return ev


def record_sessions(rnd, nsessions, root):
    from tdda.constraints import discover_df
    events = []
    tid = 0
    for s in range(nsessions):
        d = os.path.join(root, 's%d' % s)
        os.makedirs(d, exist_ok=True)
        kind = rnd.choice(['csv', 'parquet', 'none'])
        outpath = None if kind == 'none' else os.path.join(d, 'detected.' + kind)
        base = base_frame(rnd, rnd.randint(3, 7))
        if rnd.random() < 0.4:
            # a frame that was sorted / shuffled without reset_index: the index is a permutation of 0..n-1
            perm = list(range(len(base)))
            rnd.shuffle(perm)
            base.index = perm
            base['id'] = perm
        with cl.quiet():
            cs = discover_df(base.drop(columns=['id']))
        if cs is None:
            continue
        cdict = cs.to_dict()
        stale0 = outpath is not None and rnd.random() < 0.4
        if stale0:
            with open(outpath, 'w') as f:
                f.write('stale,file\n1,2\n')
        events.append({'tid': tid, 'ev': 'Init', 'outfile': 'stale' if stale0 else 'absent'})
        for r in range(rnd.randint(1, 4)):
            if outpath is not None and rnd.random() < 0.25:
                with open(outpath, 'w') as f:
                    f.write('stale,file\n1,2\n')
                events.append({'tid': tid, 'ev': 'Stale'})
            df = perturb(rnd, base) if rnd.random() < 0.65 else base.copy()
            opts = {k: rnd.choice(v) for k, v in OPTION_SPACE.items()}
            if opts['interleave'] and opts['output_fields'] == ['id']:
                opts['interleave'] = rnd.random() < 0.5
            eps = rnd.choice([None, 0.0, 0.01])
            ev = one_run(rnd, df, cdict, outpath, opts, eps)
            ev.update(tid=tid, ev='Detect', opts={k: (v if v is not None else 'None') for k, v in opts.items()},
                      kindfile=kind)
            events.append(ev)
        tid += 1
    return events
