"""
Real verify_df calls on fields that carry SEVERAL constraints, under both report modes and with added
null-valued constraints; every call becomes a Trace_VerifyReport line (C02: totals, per-field counts, tabular form,
report modes, null-valued constraints change nothing).
"""
import json
import re

import numpy as np
import pandas as pd

from . import constraints_lib as cl
from . import constraints_replay as cr

ALL_KINDS = ['type', 'min', 'max', 'sign', 'min_length', 'max_length', 'max_nulls', 'no_duplicates', 'allowed_values', 'rex']
LINE = re.compile(r'^(.+?): (\d+) failures?  (\d+) pass(?:es)?  (.*)$')
MARK = {'✓': 'T', '✗': 'F', '-': 'N', 'OK': 'T', 'X': 'F'}


def merged(col, cons, idxs, variant, pool, maxfields=6):
    """Fields g0..gm: field gj carries the j-th constraint of every kind in the group."""
    bykind = {}
    for i in idxs:
        bykind.setdefault(cons[i]['k'], []).append(i)
    m = min(maxfields, max(len(v) for v in bykind.values()))
    ser = cl.series(col, variant, pool)
    data, fields, members = {}, {}, {}
    for j in range(m):
        name = 'g%d' % j
        fd = {}
        mem = {}
        for k, lst in sorted(bykind.items()):
            if j >= len(lst):
                continue
            c = cons[lst[j]]
            val = cl.con_value(c, col['t'], pool)
            if k in ('min', 'max') and c['vt'] == 'date' and not c['isnull'] and col['t'] == 'date':
                # date bounds are written as strings and need "type": "date" next to them (as build() does);
                # then the field carries no model 'type' constraint
                val = dict(val, value=str(val['value'])) if isinstance(val, dict) else str(val)
                fd['type'] = 'date'
                mem.pop('type', None)
            if k == 'type' and fd.get('type') == 'date':
                continue
            fd[k] = val
            mem[k] = lst[j]
        if fd.get('type') == 'date' and 'type' not in mem and any(cons[i]['k'] == 'type' for i in mem.values()):
            pass
        data[name] = ser.copy()
        fields[name] = fd
        members[name] = mem
    df = pd.DataFrame(data)
    df.index = pd.RangeIndex(len(ser))
    return df, {'fields': fields}, members


def vmap(v):
    out = {}
    for name, fv in v.fields.items():
        out[name] = {k: ('N' if fv[k] is None else 'T' if fv[k] else 'F') for k in fv}
    return out


def parse_report(text):
    listed, lines = [], []
    sumpass = sumfail = -1
    for ln in text.split('\n'):
        m = LINE.match(ln)
        if m:
            marks = {}
            for part in m.group(4).split('  '):
                k, _, mk = part.rpartition(' ')
                marks[k] = MARK.get(mk, '?' + mk)
            listed.append(m.group(1))
            lines.append({'field': m.group(1), 'failures': int(m.group(2)), 'passes': int(m.group(3)), 'marks': marks})
        elif ln.startswith('Constraints passing:'):
            sumpass = int(ln.split(':')[1])
        elif ln.startswith('Constraints failing:'):
            sumfail = int(ln.split(':')[1])
    return listed, lines, sumpass, sumfail


def frame_ok(v):
    fr = v.to_frame()
    if list(fr['field']) != list(v.fields.keys()):
        return False
    for _, r in fr.iterrows():
        fv = v.fields[r['field']]
        if int(r['passes']) != fv.passes or int(r['failures']) != fv.failures:
            return False
        for k in fr.columns[3:]:
            cell = r[k]
            got = None if (cell is None or (isinstance(cell, float) and np.isnan(cell))) else bool(cell)
            want = None if (k not in fv or fv[k] is None) else bool(fv[k])
            if got != want:
                return False
    return True


def report_row(args):
    row, variant, pool, tid0 = args
    from tdda.constraints import verify_df
    col, cons = row['col'], row['cons']
    events, details, mism = [], {}, []
    tid = tid0
    for (eps, tc), idxs in sorted(cr.groups(cons).items()):
        try:
            df, cdict, members = merged(col, cons, idxs, variant, pool)
        except Exception as ex:
            return {'events': [], 'details': {}, 'mism': [], 'error': 'merge: %s: %s' % (type(ex).__name__, ex)}
        e = cr.eps_float(eps)
        res = {}
        raised = None
        for mode in ('all', 'fields'):
            for ascii_ in (False, True):
                try:
                    with cl.quiet():
                        v = verify_df(df.copy(), json.loads(json.dumps(cdict, default=str)) if False else cdict, epsilon=e,
                                      type_checking=tc, repair=False, report=mode, ascii=ascii_)
                except Exception as ex:
                    raised = '%s: %s' % (type(ex).__name__, str(ex)[:160])
                    break
                vm = vmap(v)
                res[(mode, ascii_)] = vm
                listed, lines, sp, sf = parse_report(str(v))
                events.append({'tid': tid, 'ev': 'Report', 'mode': mode, 'verdicts': vm, 'passes': int(v.passes), 'failures': int(v.failures),
                               'fieldpasses': {f: int(v.fields[f].passes) for f in v.fields},
                               'fieldfailures': {f: int(v.fields[f].failures) for f in v.fields},
                               'frameok': bool(frame_ok(v)), 'listed': listed, 'lines': lines, 'sumpass': sp, 'sumfail': sf})
                details[tid] = {'column': col, 'variant': variant, 'constraints': cdict, 'epsilon': e, 'type_checking': tc,
                                'report': mode, 'ascii': ascii_, 'printed': str(v)[:1500]}
                tid += 1
            if raised:
                break
        if raised:
            # the per-constraint replay (VerifyRaises) owns raising constraints; nothing is demanded here
            continue
        events.append({'tid': tid, 'ev': 'Mode', 'a': res[('all', False)], 'b': res[('fields', True)]})
        details[tid] = {'column': col, 'variant': variant, 'constraints': cdict, 'epsilon': e, 'type_checking': tc}
        tid += 1
        # the merged fields' verdicts against the specification (one constraint does not disturb another)
        base = res[('all', False)]
        for name, mem in members.items():
            for k, i in mem.items():
                c = cons[i]
                got = {'T': True, 'F': False, 'N': 'none'}.get(base.get(name, {}).get(k), 'absent')
                if c['dem'] and got != c['spec']:
                    mism.append({'clause': 'VerdictIsSpec', 'kind': k, 'con': c, 'observed': got, 'expected': c['spec'],
                                 'eps': list(eps), 'tc': tc, 'merged_field': cdict['fields'][name]})
        # null-valued constraints of every kind the field does not carry yet
        cd2 = {'fields': {n: dict(fd) for n, fd in cdict['fields'].items()}}
        added = {}
        for n, fd in cd2['fields'].items():
            added[n] = [k for k in ALL_KINDS if k not in fd]
            for k in added[n]:
                fd[k] = None
        try:
            with cl.quiet():
                v2 = verify_df(df.copy(), cd2, epsilon=e, type_checking=tc, repair=False)
            events.append({'tid': tid, 'ev': 'Null', 'base': base, 'withnull': vmap(v2), 'added': added})
        except Exception as ex:
            events.append({'tid': tid, 'ev': 'Null', 'base': base, 'withnull': {}, 'added': added})
            details.setdefault(tid, {})['error'] = '%s: %s' % (type(ex).__name__, str(ex)[:200])
        details.setdefault(tid, {}).update({'column': col, 'variant': variant, 'constraints': cd2, 'epsilon': e, 'type_checking': tc})
        tid += 1
    return {'events': events, 'details': details, 'mism': mism, 'error': None}


def mixed_frame(args):
    """Two or three DIFFERENT model columns (same number of records) in one frame, each carrying a random part of its
    constraints (at most one of a kind): every verdict is the specification's verdict for that field alone - what is
    computed for one field never reaches another."""
    import random
    rows, variants, pools, seed = args
    from tdda.constraints import verify_df
    rnd = random.Random(seed)
    mism = []
    n = 0
    keys = None
    for r in rows:
        ks = set(cr.groups(r['cons']))
        keys = ks if keys is None else keys & ks
    for key in sorted(keys or ()):
        eps, tc = key
        data, fields, members = {}, {}, {}
        order = list(range(len(rows)))
        rnd.shuffle(order)
        try:
            for j in order:
                r = rows[j]
                bykind = {}
                for i in cr.groups(r['cons'])[key]:
                    bykind.setdefault(r['cons'][i]['k'], []).append(i)
                chosen = [rnd.choice(lst) for k, lst in sorted(bykind.items()) if rnd.random() < 0.5]
                if not chosen:
                    chosen = [rnd.choice(lst) for k, lst in sorted(bykind.items())][:1]
                df1, cd1, mem1 = merged(r['col'], r['cons'], chosen, variants[j], pools[j], maxfields=1)
                name = 'm%d' % j
                data[name] = df1['g0']
                fields[name] = cd1['fields']['g0']
                members[name] = (r, mem1['g0'])
            df = pd.DataFrame(data)
        except Exception as ex:
            return {'n': n, 'mism': mism, 'error': 'mixed: %s: %s' % (type(ex).__name__, ex)}
        try:
            with cl.quiet():
                v = verify_df(df, {'fields': fields}, epsilon=cr.eps_float(eps), type_checking=tc, repair=False)
        except Exception:
            continue        # (raising constraints belong to the per-constraint replay)
        vm = vmap(v)
        n += 1
        for name, (r, mem) in members.items():
            for k, i in mem.items():
                c = r['cons'][i]
                got = {'T': True, 'F': False, 'N': 'none'}.get(vm.get(name, {}).get(k), 'absent')
                if c['dem'] and got != c['spec']:
                    mism.append({'clause': 'VerdictIsSpec', 'kind': k, 'con': c, 'observed': got, 'expected': c['spec'], 'column': r['col'],
                                 'eps': list(eps), 'tc': tc, 'frame_fields': fields, 'field': name, 'field_order': list(df.columns)})
    return {'n': n, 'mism': mism, 'error': None}
