"""
rexpy harness: character-class table from the running interpreter (DESIGN 4.2), instrumented
extraction runs (loop steps and PRNG draws recorded by wrappers installed from outside), match matrices.
"""
import contextlib
import io
import random
import re
import sys

FLAGS = re.UNICODE | re.DOTALL
DIALECTS = ['perl', 'portable', 'grep']
EXTRAS = ['', '_', '.-', '_.-']


def quiet():
    return contextlib.redirect_stdout(io.StringIO())


# --------------------------------------------------------------------------------------------------
# character classes

def category_table(extra, dialect):
    """name -> regex string of every Category of a Categories object for this option set."""
    from tdda.rexpy import rexpy
    cats = rexpy.Categories(extra or None, dialect=None if dialect == 'perl' else dialect)
    out = {}
    for k, v in cats.__dict__.items():
        if hasattr(v, 're_string') and hasattr(v, 'code'):
            out[k] = v.re_string
    return out


def char_signature(ch, tables):
    from tdda.rexpy import rexpy
    sig = []
    for key in sorted(tables):
        for name in sorted(tables[key]):
            rx = tables[key][name]
            try:
                sig.append(bool(re.match('^%s$' % rx, ch, FLAGS)))
            except re.error:
                sig.append(None)
    sig.append(ch.isdigit())
    sig.append('a' <= ch <= 'z')
    sig.append('A' <= ch <= 'Z')
    sig.append('a' <= ch <= 'f')
    sig.append('A' <= ch <= 'F')
    sig.append(ch in rexpy.UNESCAPES)
    sig.append(re.escape(ch) != ch)
    sig.append(ch.strip() == '')
    # characters that are special inside a bracket or in the scanner are classes of their own
    sig.append(ch if ch in '^-]\\_.[' else '')
    return tuple(sig)


_CLASS_CACHE = None


def char_classes():
    """List of classes: {'id', 'reps': [chars], 'size', 'facts': {...}} computed from the working tree."""
    global _CLASS_CACHE
    if _CLASS_CACHE is not None:
        return _CLASS_CACHE
    tables = {}
    for extra in EXTRAS:
        for d in DIALECTS:
            tables['%s|%s' % (extra, d)] = category_table(extra, d)
    cps = list(range(0, 0x3000)) + [0xFF10, 0xFF21, 0x1D7CE, 0x1F600, 0x10330, 0xE000]
    groups = {}
    for cp in cps:
        if 0xD800 <= cp <= 0xDFFF:
            continue
        ch = chr(cp)
        groups.setdefault(char_signature(ch, tables), []).append(ch)
    classes = []
    for i, (sig, chars) in enumerate(sorted(groups.items(), key=lambda kv: ord(kv[1][0]))):
        reps = [chars[0], chars[len(chars) // 2]] if len(chars) > 1 else [chars[0]]
        facts = {}
        pos = 0
        for key in sorted(tables):
            for name in sorted(tables[key]):
                facts['%s|%s' % (key, name)] = sig[pos]
                pos += 1
        for nm in ('isdigit', 'az', 'AZ', 'af', 'AF', 'unescaped', 'reescape', 'isspace', 'special'):
            facts[nm] = sig[pos]
            pos += 1
        classes.append({'id': i + 1, 'reps': reps, 'size': len(chars), 'facts': facts})
    _CLASS_CACHE = classes
    return classes


# --------------------------------------------------------------------------------------------------
# matching (the property's own words: Python re, full match, UNICODE|DOTALL)

def full_match(rex, s):
    try:
        return re.fullmatch(rex, s, FLAGS) is not None
    except re.error:
        return False


def compiles(rex):
    try:
        re.compile(rex, FLAGS)
        return True
    except re.error:
        return False


def kept_examples(examples, strip=False, remove_empties=False):
    """Distinct examples the options do not discard, with their frequencies (after stripping if asked)."""
    out = {}
    items = examples.items() if isinstance(examples, dict) else [(e, 1) for e in examples]
    for e, n in items:
        if e is None or n == 0:
            continue
        if strip:
            e = e.strip()
        if remove_empties and e == '':
            continue
        out[e] = out.get(e, 0) + n
    return out


# --------------------------------------------------------------------------------------------------
# instrumented runs

class Recorder:
    """Wraps random.* and Extractor internals for the duration of one extraction (no source change)."""

    def __init__(self):
        self.events = []

    @contextlib.contextmanager
    def installed(self):
        from tdda.rexpy import rexpy
        ev = self.events
        orig = {'sample': random.sample, 'seed': random.seed, 'getstate': random.getstate,
                'setstate': random.setstate, 'batch': rexpy.Extractor.batch_extract,
                'snm': rexpy.Extractor.sample_non_matches}
        state = {'origin': 'global', 'n': 0, 'saved': None}

        def sample(pop, k, *a, **kw):
            r = orig['sample'](pop, k, *a, **kw)
            state['n'] += 1
            ev.append({'ev': 'Draw', 'origin': state['origin'], 'k': k, 'pop': len(pop)})
            return r

        def seed(*a, **kw):
            state['origin'] = 'seed'
            state['n'] = 0
            ev.append({'ev': 'Seed'})
            return orig['seed'](*a, **kw)

        def getstate():
            ev.append({'ev': 'Save'})
            return orig['getstate']()

        def setstate(s):
            state['origin'] = 'global'
            ev.append({'ev': 'Restore'})
            return orig['setstate'](s)

        def batch(self_):
            r = orig['batch'](self_)
            ev.append({'ev': 'BatchExtract', 'wsize': len(self_.examples.strings),
                       'working': list(self_.examples.strings), 'rex': list(r.rex)})
            return r

        def snm(self_, rexes, maxN=None):
            f, fr, rf = orig['snm'](self_, rexes, maxN)
            ev.append({'ev': 'CheckFailures', 'nrex': len(rexes), 'maxn': -1 if maxN is None else maxN,
                       'nfail': len(f), 'failures': list(f)})
            return f, fr, rf
        random.sample, random.seed, random.getstate, random.setstate = sample, seed, getstate, setstate
        rexpy.Extractor.batch_extract = batch
        rexpy.Extractor.sample_non_matches = snm
        try:
            yield self
        finally:
            random.sample, random.seed = orig['sample'], orig['seed']
            random.getstate, random.setstate = orig['getstate'], orig['setstate']
            rexpy.Extractor.batch_extract = orig['batch']
            rexpy.Extractor.sample_non_matches = orig['snm']


def run_extract(examples, record=False, **kw):
    """Returns dict(rex, raised, events, obj). examples: list or dict."""
    from tdda.rexpy import rexpy
    rec = Recorder()
    out = {'rex': [], 'raised': 'none', 'events': [], 'obj': None}
    try:
        with quiet():
            if record:
                with rec.installed():
                    x = rexpy.extract(examples, as_object=True, **kw)
            else:
                x = rexpy.extract(examples, as_object=True, **kw)
        out['obj'] = x
        out['rex'] = list(x.results.rex) if x.results else []
    except Exception as ex:
        out['raised'] = '%s: %s' % (type(ex).__name__, str(ex)[:150])
    out['events'] = rec.events
    return out


# --------------------------------------------------------------------------------------------------
# rich random inputs: alphabet weighted towards one representative of every character class

def alphabet():
    reps = []
    for c in char_classes():
        reps.extend(c['reps'][:1])
    return reps


WORDS = ['ab', 'ABC', 'x1', '12', '007', 'a-b', 'a_b', 'a.b', 'foo bar', ' lead', 'trail ', 'AbC', 'é', 'ñandú',
         '٣٤', '²', 'Ⅷ', 'x²', '1.5', '-3', '+1', '(x)', '[y]', '{z}', 'a|b', 'a^b', '^-', '-^', ']', '\\', 'a\\b',
         'tab\there', 'nl\nx', 'a b', ' ', ' ', '\x1c', '\x85', '２', '𝟎', '😀', 'ß', 'ǅ', '中', 'g7', 'f7', '1a',
         'AB-12', 'CD-34', 'ab-12', 'cd-ef', '-12', 'x{3}', 'v{2}', '', '100$', '25$', '7$', 'x{1}y', 'x{1}z', '12:', '34:', '56:ab', '78:cd']


def rich_examples(rnd):
    mode = rnd.choice(['words', 'chars', 'template', 'mixed', 'tails', 'manyvalues'])
    n = rnd.choice([1, 2, 3, 4, 6, 9, 15])
    alpha = alphabet()
    out = []
    if mode == 'words':
        out = [rnd.choice(WORDS) for _ in range(n)]
    elif mode == 'chars':
        sub = rnd.sample(alpha, min(len(alpha), rnd.randint(1, 4)))
        out = [''.join(rnd.choice(sub) for _ in range(rnd.randint(0, 4))) for _ in range(n)]
    elif mode == 'template':
        # same shape, varying fragments: letters-sep-digits
        sep = rnd.choice(['-', '_', '.', ' ', '/', ':', '^', '-^', '\\', ']', '|'])
        L = rnd.sample(alpha, 3)
        D = rnd.choice([['1', '2', '3'], ['٣', '٤'], ['²', '³'], ['1', '٣'], ['a', '1'],
                        # numeric but not digits: letter-numbers, vulgar fractions, CJK numerals
                        ['Ⅷ', 'Ⅸ'], ['½', '¾'], ['三', '五'], ['Ⅷ', '1']])
        if rnd.random() < 0.3:
            sep = ''           # the second fragment follows the letters directly (one alphanumeric run)
        out = [''.join(rnd.choice(L) for _ in range(rnd.randint(1, 3))) + sep +
               ''.join(rnd.choice(D) for _ in range(rnd.randint(1, 3))) for _ in range(n)]
    elif mode == 'tails':
        # one alphanumeric run whose tail (other fine class, 0..5 characters) is optional
        heads = rnd.sample(['ab', 'cd', 'xy', 'AB', 'q'], rnd.randint(1, 3))
        tailch = rnd.choice(['1234567', 'XYZ', 'abc'])
        out = []
        for _ in range(n):
            h = rnd.choice(heads)
            k = rnd.choice([0, 0, 1, 2, 3, 4, 5])
            out.append(h + ''.join(rnd.choice(tailch) for _ in range(k)))
        out.append(heads[0])
    elif mode == 'manyvalues':
        # one variable fragment with more distinct values than Size.max_strings_in_group (10), whose class is widened
        # only by values that come late in the input
        k = rnd.randint(11, 17)
        low = 'abcdefghijklmnopqrstuvwxyz'
        vals = []
        while len(vals) < k:
            v = ''.join(rnd.choice(low) for _ in range(rnd.randint(2, 4)))
            if v not in vals:
                vals.append(v)
        late = rnd.sample(['Nu', 'Xi', 'q7', 'été', 'A', 'x_y', 'Zz9', 'ß'], rnd.randint(1, 3))
        prefix = rnd.choice(['', '', 'id-', '#'])
        out = [prefix + v for v in vals + late]
        if rnd.random() < 0.3:
            rnd.shuffle(out)
    else:
        out = [rnd.choice(WORDS) + rnd.choice(['', rnd.choice(alpha)]) for _ in range(n)]
    if rnd.random() < 0.15:
        # whitespace-only and empty examples (they matter under strip / remove_empties)
        out.insert(rnd.randrange(len(out) + 1), rnd.choice(['  ', '\t', ' \u00a0', '', '', ' ']))
    if rnd.random() < 0.2:
        out.append(None)
    return out


def rich_options(rnd):
    from tdda.rexpy.rexpy import Size
    kw = {}
    if rnd.random() < 0.4:
        kw['tag'] = True
    if rnd.random() < 0.3:
        kw['strip'] = True
    if rnd.random() < 0.3:
        kw['remove_empties'] = True
    if rnd.random() < 0.4:
        kw['extra_letters'] = rnd.choice(['_', '.-', '_.-', '-', '.'])
    if rnd.random() < 0.45:
        kw['variableLengthFrags'] = True
    kw['dialect'] = rnd.choice(DIALECTS)
    if rnd.random() < 0.2:
        kw['full_escape'] = True
    sizekw = None
    if rnd.random() < 0.5:
        sizekw = {'do_all': rnd.randint(1, 3), 'do_all_exceptions': rnd.randint(1, 3),
                  'max_sampled_attempts': rnd.randint(0, 2)}
        if rnd.random() < 0.3:
            sizekw['use_sampling'] = False      # (only chooses the DEFAULT thresholds; the explicit small ones still sample)
        kw['size'] = Size(**sizekw)
    if rnd.random() < 0.6:
        kw['seed'] = rnd.randint(0, 5)
    return kw, sizekw


# --------------------------------------------------------------------------------------------------
# the character-class table as a TLA+ module (constant facts for RexFrag.tla)

def table_module():
    cls = char_classes()
    lines = ['---------------------------- MODULE RexFragTable ----------------------------',
             '(* GENERATED by harness/rex_lib.py from the running interpreter and the working tree:        *)',
             '(* which character classes each rexpy Category expression matches, per extra-letters option  *)',
             '(* and dialect (Python re, UNICODE|DOTALL, full match), and what str.isdigit etc. say.        *)',
             'EXTENDS Naturals, TLC', '',
             'NClasses == %d' % len(cls),
             'ClassIds == 1..NClasses']

    def setof(pred):
        return '{' + ', '.join(str(c['id']) for c in cls if pred(c)) + '}'
    lines.append('IsDigitCls == ' + setof(lambda c: c['facts']['isdigit']))
    lines.append('AzCls == ' + setof(lambda c: c['facts']['az']))
    lines.append('AZCls == ' + setof(lambda c: c['facts']['AZ']))
    for name, ch in (('Caret', '^'), ('Hyphen', '-'), ('RBracket', ']'), ('Backslash', '\\'), ('Underscore', '_'), ('Dot', '.')):
        ids = [c['id'] for c in cls if c['facts']['special'] == ch]
        lines.append('%sCls == %d' % (name, ids[0] if ids else 0))
    lines.append('RepOf == <<' + ', '.join('"U+%04X"' % ord(c['reps'][0]) for c in cls) + '>>')
    keys = sorted(k for k in cls[0]['facts'] if k.count('|') == 2)
    entries = []
    for k in keys:
        ids = [str(c['id']) for c in cls if c['facts'][k]]
        entries.append('("%s" :> {%s})' % (k, ', '.join(ids)))
    lines.append('MT == ' + '\n   @@ '.join(entries))
    lines.append('=============================================================================')
    return '\n'.join(lines) + '\n'
