"""Shared rexpy drivers: rich recorded runs -> RexLoop trace events; fragment replays; cause classification."""
import json
import random
import re

from . import common, tlc, trace
from . import rex_lib as rx


def size_params(sizekw):
    if sizekw:
        return sizekw['do_all'], sizekw['do_all_exceptions'], sizekw['max_sampled_attempts']
    return 100, 4000, 2


def run_record(rnd, tid, examples=None, kw=None, sizekw=None):
    """One recorded extraction; returns dict with everything the checks need."""
    if examples is None:
        examples = rx.rich_examples(rnd)
        kw, sizekw = rx.rich_options(rnd)
    form = rnd.choice(['list', 'dict'])
    given = examples
    if form == 'dict':
        d = {}
        for e in examples:
            if e is not None:
                d[e] = d.get(e, 0) + 1
        given = d
    r = rx.run_extract(given, record=True, **kw)
    kept = rx.kept_examples([e for e in examples], kw.get('strip', False), kw.get('remove_empties', False))
    rec = {'tid': tid, 'examples': examples, 'form': form, 'kw': {k: v for k, v in kw.items() if k != 'size'},
           'size': sizekw, 'rex': r['rex'], 'raised': r['raised'], 'kept': kept, 'events': r['events'], 'obj': r['obj']}
    rec['unmatched'] = [e for e in kept if not any(rx.full_match(x, e) for x in r['rex'])] if r['raised'] == 'none' else []
    if kw.get('strip') and r['raised'] == 'none':
        # with strip the expressions are wrapped so that the strings AS SUPPLIED match
        for e in examples:
            if e is None or (kw.get('remove_empties') and e.strip() == ''):
                continue
            if e not in rec['unmatched'] and not any(rx.full_match(x, e) for x in r['rex']):
                rec['unmatched'].append(e)
    return rec


def loop_events(rec):
    """RexLoop trace lines for one recorded run (None if the run raised)."""
    if rec['raised'] != 'none' or rec['obj'] is None:
        return None
    x = rec['obj']
    if not hasattr(x, 'all_examples'):
        return None
    allstr = list(x.all_examples.strings)
    ids = {s: 'e%d' % i for i, s in enumerate(allstr)}
    doall, doallexc, maxatt = size_params(rec['size'])
    seeded = rec['kw'].get('seed') is not None
    tid = rec['tid']
    out = [{'tid': tid, 'ev': 'Init', 'all': [ids[s] for s in allstr], 'doall': doall, 'doallexc': doallexc,
            'maxatt': maxatt, 'seeded': seeded}]
    gd = 0
    seen_seed = False
    first_check = True
    last_restore = max([i for i, e in enumerate(rec['events']) if e['ev'] == 'Restore'], default=-1)
    for i, e in enumerate(rec['events']):
        if e['ev'] == 'Draw':
            if e['origin'] == 'global':
                gd += 1
        elif e['ev'] == 'Seed':
            if not seen_seed:
                out.append({'tid': tid, 'ev': 'Seed'})
                seen_seed = True
        elif e['ev'] == 'CheckFailures':
            if first_check and e['nrex'] == 0:
                out.append({'tid': tid, 'ev': 'InitialSample', 'working': [ids[s] for s in e['failures'] if s in ids],
                            'gdraws': gd})
            else:
                out.append({'tid': tid, 'ev': 'CheckFailures', 'failures': [ids[s] for s in e['failures'] if s in ids],
                            'gdraws': gd, 'maxn': e['maxn']})
            first_check = False
        elif e['ev'] == 'BatchExtract':
            matched = [ids[s] for s in allstr if any(_match(r, s) for r in e['rex'])]
            out.append({'tid': tid, 'ev': 'BatchExtract', 'working': [ids[s] for s in e['working'] if s in ids],
                        'matched': matched, 'nrex': len(e['rex']), 'rextexts': list(e['rex'])})
        elif e['ev'] == 'Restore' and i == last_restore and seeded:
            out.append({'tid': tid, 'ev': 'Restore'})
    out.append({'tid': tid, 'ev': 'Done'})
    return out


def _match(r, s):
    # the library's own notion while looping: re.match of the (anchored) internal expression
    try:
        return re.match(r, s, rx.FLAGS) is not None
    except re.error:
        return False


def validate_loops(chk, recs, name='rexloop'):
    """Validates the runs' loop traces; returns {tid: final row} and the set of rejected tids with diagnosis."""
    events = []
    for rec in recs:
        evs = loop_events(rec)
        if evs:
            events += evs
    if not events:
        return {}, {}
    # renumber tids densely for the trace file
    res, _ = trace.validate('Trace_RexLoop', 'Trace_RexLoop.cfg', events, name=name, workers=8)
    # the generic helper expects 'consumed' rows; this spec reports per-run verdicts instead
    finals = {r['tid']: r for r in res.rows if 'covered' in r}
    if res.error and 'not fully consumed' in res.error:
        res.ok, res.error = True, None
    chk.add_tlc(res)
    tids = {e['tid'] for e in events}
    rejected = {}
    for tid in sorted(tids - set(finals)):
        evs = [e for e in events if e['tid'] == tid]
        r2, _ = trace.validate('Trace_RexLoop', 'Trace_RexLoop_diag.cfg', evs, name='%s_diag_%d' % (name, tid), workers=1)
        at = max([r['at'] for r in r2.rows if 'at' in r], default=1)
        stuck = evs[at - 1] if at - 1 < len(evs) else {'ev': 'end'}
        rejected[tid] = {'stuck_at_line': at, 'event': stuck, 'events': evs[:at + 1]}
    chk.coverage['traces_validated_against_impl'] += len(tids)
    return finals, rejected


# ------------------------------------------------------------------------------------------------
# causes (which named deviation of the pinned design explains an unmatched example)

def char_causes(example, dialect, rexes=()):
    causes = set()
    for ch in example:
        if ch.isdigit() and not re.match(r'^\d$', ch, rx.FLAGS):
            causes.add('IsdigitNotBackslashD')
        if dialect in ('portable', 'grep') and re.match(r'^\d$', ch, rx.FLAGS) and not ('0' <= ch <= '9'):
            causes.add('ChoiceByInternalDialect')
    import string
    punct = ''.join(re.escape(c) for c in string.punctuation if c != '_')
    for m in re.finditer('[%s]+' % punct, example):
        if set(m.group(0)) <= {'^', '-'} and any('[^-]' in r for r in rexes):
            causes.add('BracketCaretFirst')     # a punctuation fragment made of ^ and - only, rendered [^-]
    return causes
