"""
Real ReferenceTest sessions for the RefTest model: concretize states/actions, run them on the real
code, abstract what happened (outcome class, files touched, reference contents as content ids).
"""
import contextlib
import hashlib
import io
import os
import shutil

import pandas as pd

SINGLE_TYPES = ['string', 'textfile', 'binary', 'dataframe', 'ondisk', 'csvframe', 'csv2pq', 'csvlegacy']      # csv2pq: actual file CSV, reference parquet
EXT = {'string': '.txt', 'textfile': '.txt', 'textfiles': '.txt', 'binary': '.bin',
       'dataframe': '.parquet', 'ondisk': '.parquet', 'csvframe': '.csv', 'csv2pq': '.parquet', 'csvlegacy': '.csv'}


class Fail(Exception):
    pass


def _assert_fn(x, msg):
    if not x:
        raise Fail(msg)


# ------------------------------------------------------------------------------------------------
# contents: a pool per type; pool[i] is a list of *variants* that the assertion type cannot tell apart

def text_pool(extra=()):
    base = [
        ['alpha\nbeta\n', 'alpha\nbeta'],
        ['café ☃ \U0001F600\nl2\n', 'café ☃ \U0001F600\nl2'],       # (second: the exhaustive step replay uses the first two contents)
        ['alpha\ngamma\n'],
        ['one line, no newline'],
        ['x\ny\nz\n'],
        ['x\nz\ny\n'],
        ['tab\there\n  indented\n'],
        ['a\n\nb\n'],
        ['quote " \' \\ back\n'],
        ['0123456789\n' * 3],
        # blank lines at the ends and a whitespace-only last line (they matter when lstrip / rstrip are passed)
        ['tail blank\n\n\n'],
        ['\nlead blank\n'],
        ['ws line\n   \n'],
    ]
    return base + [list(e) for e in extra]


def binary_pool():
    return [[b'\x00\x01\x02'], [b'\x00\x01\x03'], [b'\x00\x01'], [b''], [b'\r\n\x00\xff'], [b'\n\x00\xff'],
            [bytes(range(256))], [b'abc'], [b'abd'], [b'\xff' * 10]]


def _ts(sec, unit=None, tz=None):
    t = pd.to_datetime(['2020-01-01 00:00:00', '2021-02-03 04:05:%02d' % sec])
    if unit:
        t = t.astype('datetime64[%s]' % unit)
    if tz:
        t = t.tz_localize(tz)
    return pd.DataFrame({'t': t})


def frame_pool():
    """Every entry differs from every other in its values, so that canon() tells them apart even when
    the parquet round trip changes a dtype."""
    import numpy as np
    return [[pd.DataFrame({'a': [1, 2, 3], 'b': [1.5, 2.5, None]})],
            [pd.DataFrame({'a': [1, 2, 4], 'b': [1.5, 2.5, None]})],
            [pd.DataFrame({'a': [1, 2, 3]})],
            [pd.DataFrame({'a': [1, 2, 3], 's': pd.Series(['x', 'y', None], dtype=object)})],
            [pd.DataFrame({'a': [1, 2, 3], 's': pd.Series(['x', 'z', None], dtype=object)})],
            [_ts(6)],
            [_ts(7)],
            [pd.DataFrame({'a': [True, False, True]})],
            [pd.DataFrame({'a': [1.25, 2.5]})],
            [pd.DataFrame({'näme': [10, 20]})],
            [pd.DataFrame({'s': ['x10', 'y', None]})],                                  # default str dtype
            [pd.DataFrame({'s': pd.Series(['x11', 'y', None], dtype='string')})],
            [pd.DataFrame({'s': pd.Series(['x12', 'y', 'x12'], dtype='category')})],
            [_ts(13, 's')],
            [_ts(14, 'ns')],
            [_ts(15, tz='UTC')],
            [pd.DataFrame({'a': pd.Series([16, None, 3], dtype='Int64')})],
            [pd.DataFrame({'a': pd.Series([17, 2, 2**64 - 1], dtype='uint64')})],
            [pd.DataFrame({'a': [np.inf, -np.inf, np.nan]})],
            [pd.DataFrame({'a': pd.Series([], dtype='int64')})]]


def csv_frame_pool():
    # frames that survive the default CSV writer/reader pair unchanged
    return [[pd.DataFrame({'a': [1, 2, 3], 'b': [1.5, 2.5, 3.5]})],
            [pd.DataFrame({'a': [1, 2, 4], 'b': [1.5, 2.5, 3.5]})],
            [pd.DataFrame({'a': [1, 2, 3]})],
            [pd.DataFrame({'a': [1, 2, 3], 'b': [1.5, 2.5, 3.25]})],
            [pd.DataFrame({'x': [7, 8]})]]


POOLS = {'string': text_pool, 'textfile': text_pool, 'textfiles': text_pool, 'binary': binary_pool,
         'dataframe': frame_pool, 'ondisk': frame_pool, 'csvframe': csv_frame_pool, 'csv2pq': csv_frame_pool, 'csvlegacy': csv_frame_pool}


def canon(ty, obj):
    """Canonical form under 'the assertion type cannot tell them apart'."""
    if ty in ('string', 'textfile', 'textfiles'):
        return ('lines',) + tuple(obj.splitlines())
    if ty == 'binary':
        return ('bytes', bytes(obj))
    # frames: column names, dtypes, values (nulls as None)
    cols = []
    for c in obj.columns:
        s = obj[c]
        dk = s.dtype.kind if hasattr(s.dtype, 'kind') else 'O'
        dk = {'i': 'n', 'u': 'n', 'f': 'n', 'O': 's', 'T': 's', 'U': 's'}.get(dk, dk)
        cols.append((str(c), dk, tuple(None if pd.isna(v) else str(v) for v in s.tolist())))
    return ('frame', tuple(cols))


# what a kind is called for real: the model's labels stand for names people use (and which the library itself uses as defaults)
KIND_NAMES = {'k0': 'csv', 'k1': 'table', 'k2': 'graph', 'k3': 'text'}       # ('parquet' is an alias of 'csv' for on-disk frames in the library: not used as a label)
KIND_ABS = {v: k for k, v in KIND_NAMES.items()}


def kname(kind):
    return None if kind == 'NoKind' else KIND_NAMES.get(kind, kind)


def kabs(name):
    return 'NoKind' if name is None else KIND_ABS.get(name, name)


class Session:
    """One real session in a scratch directory. Paths and contents are identified by model ids."""

    def __init__(self, root, path_types, content_names, variant=0):
        """path_types: {path id: type}; content_names: list of content ids (index into the type's pool)."""
        from tdda.referencetest.referencetest import ReferenceTest
        self.RT = ReferenceTest
        self.root = root
        self.refdir = os.path.join(root, 'ref')
        self.actdir = os.path.join(root, 'actual')
        self.tmpdir = os.path.join(root, 'tmp')
        for d in (self.refdir, self.actdir, self.tmpdir):
            os.makedirs(d, exist_ok=True)
        self.path_types = dict(path_types)
        self.content_names = list(content_names)
        self.variant = variant
        self.pools = {ty: POOLS[ty]() for ty in set(self.path_types.values())}
        ReferenceTest.regenerate.clear()
        ReferenceTest.set_defaults(verbose=False, tmp_dir=self.tmpdir)
        self.rt = ReferenceTest(_assert_fn)
        self.nact = 0

    # ---- concretize -----------------------------------------------------------------------
    def refpath(self, p):
        ty = self.path_types[p]
        if ty in ('string', 'textfile'):
            # text references under other names than *.txt (what a reference is called says nothing about how it is read,
            # *.pdf apart - the documented latin-1 case, not used here)
            return os.path.join(self.refdir, p + ['.txt', '.ps', '.html', '.eps'][self.variant % 4])
        return os.path.join(self.refdir, p + EXT[ty])

    def content(self, ty, cid, variant=None):
        vs = self.pools[ty][self.content_names.index(cid)]
        v = self.variant if variant is None else variant
        return vs[v % len(vs)]

    def write_raw(self, path, ty, obj):
        if ty in ('string', 'textfile', 'textfiles'):
            with open(path, 'w', encoding='utf-8', newline='') as f:
                f.write(obj)
        elif ty == 'binary':
            with open(path, 'wb') as f:
                f.write(obj)
        elif ty in ('csvframe', 'csvlegacy'):
            obj.to_csv(path, index=False)
        else:
            obj.to_parquet(path)

    def set_state(self, regen, refs):
        self.RT.regenerate.clear()
        for k, v in regen.items():
            if v != 'unset':
                self.RT.regenerate[kname(k)] = (v == 'T')
        for p, cid in refs.items():
            path = self.refpath(p)
            if cid == 'Absent':
                if os.path.exists(path):
                    os.remove(path)
            else:
                self.write_raw(path, self.path_types[p], self.content(self.path_types[p], cid, 0))

    # ---- observe --------------------------------------------------------------------------
    def stat(self):
        out = {}
        for p in self.path_types:
            path = self.refpath(p)
            if os.path.exists(path):
                st = os.stat(path)
                with open(path, 'rb') as f:
                    h = hashlib.sha1(f.read()).hexdigest()
                out[p] = (st.st_ino, st.st_mtime_ns, st.st_size, h)
            else:
                out[p] = None
        return out

    def read_ref(self, p):
        ty = self.path_types[p]
        path = self.refpath(p)
        if ty in ('string', 'textfile', 'textfiles'):
            with open(path, 'r', encoding='utf-8', newline='') as f:
                return f.read()
        if ty == 'binary':
            with open(path, 'rb') as f:
                return f.read()
        if ty in ('csvframe', 'csvlegacy'):
            return pd.read_csv(path)
        return pd.read_parquet(path)

    def abstract_refs(self):
        out = {}
        for p, ty in self.path_types.items():
            if not os.path.exists(self.refpath(p)):
                out[p] = 'Absent'
                continue
            try:
                c = canon(ty, self.read_ref(p))
            except Exception:
                out[p] = 'other'
                continue
            out[p] = 'other'
            for i, name in enumerate(self.content_names):
                if i < len(self.pools[ty]) and any(canon(ty, v) == c for v in self.pools[ty][i]):
                    out[p] = name
                    break
        return out

    def others_outside(self):
        """files that appeared anywhere under root except ref/, actual/, tmp/ (never expected)."""
        return [f for f in os.listdir(self.root) if f not in ('ref', 'actual', 'tmp')]

    # ---- actions --------------------------------------------------------------------------
    def set_regeneration(self, kind, flag):
        self.RT.set_regeneration(kname(kind), regenerate=flag)

    def do_assert(self, ty, kind, paths, actual_ids, opts=None):
        """Returns (outcome class, wrote list, detail)."""
        k = kname(kind)
        kwo = dict(opts or {}) if ty in ('string', 'textfile', 'textfiles') else {}
        # age the references so that any rewrite (even with identical bytes inside one clock tick)
        # shows up as a changed mtime
        # (only in every other call: a rewrite within the same second as the previous write must be seen as well, by
        # the library and by this observer, which looks at mtime_ns and a content hash anyway)
        if self.nact % 2 == 0 and getattr(self, 'ageing', True):
            for p in self.path_types:
                if os.path.exists(self.refpath(p)):
                    os.utime(self.refpath(p), ns=(946684800 * 10**9, 946684800 * 10**9))
        before = self.stat()
        self.nact += 1
        detail = ''
        try:
          with contextlib.redirect_stdout(io.StringIO()):
            if ty == 'string':
                self.rt.assertStringCorrect(self.content(ty, actual_ids[0]), self.refpath(paths[0]), kind=k, **kwo)
            elif ty in ('textfile', 'binary', 'ondisk', 'csvframe', 'csv2pq', 'csvlegacy'):
                ap = os.path.join(self.actdir, 'a%d%s' % (self.nact, '.csv' if ty == 'csv2pq' else EXT[ty]))
                self.write_raw(ap, 'csvframe' if ty in ('csv2pq', 'csvlegacy') else ty, self.content(ty, actual_ids[0]))
                if ty == 'textfile':
                    self.rt.assertTextFileCorrect(ap, self.refpath(paths[0]), kind=k, **kwo)
                elif ty == 'binary':
                    self.rt.assertBinaryFileCorrect(ap, self.refpath(paths[0]), kind=k)
                elif ty == 'csvlegacy':
                    self.rt.assertCSVFileCorrect(ap, self.refpath(paths[0]), kind=k)        # (the older spelling of the same assertion)
                elif ty == 'ondisk':
                    self.rt.assertOnDiskDataFrameCorrect(ap, self.refpath(paths[0]), kind=k)
                else:
                    self.rt.assertOnDiskDataFrameCorrect(ap, self.refpath(paths[0]), kind=k)
            elif ty == 'textfiles':
                aps = []
                for i, cid in enumerate(actual_ids):
                    ap = os.path.join(self.actdir, 'a%d_%d.txt' % (self.nact, i))
                    self.write_raw(ap, ty, self.content(ty, cid))
                    aps.append(ap)
                self.rt.assertTextFilesCorrect(aps, [self.refpath(p) for p in paths], kind=k, **kwo)
            elif ty == 'dataframe':
                self.rt.assertDataFrameCorrect(self.content(ty, actual_ids[0]), self.refpath(paths[0]), kind=k)
            else:
                raise ValueError(ty)
            outcome = 'ok'
        except Fail as e:
            outcome = 'fail'
            detail = str(e)[:300]
        except AssertionError as e:
            outcome = 'fail'
            detail = str(e)[:300]
        except Exception as e:
            outcome = 'error'
            detail = '%s: %s' % (type(e).__name__, str(e)[:300])
        after = self.stat()
        wrote = sorted(p for p in self.path_types if before[p] != after[p])
        return outcome, wrote, detail

    def close(self):
        self.RT.regenerate.clear()
        self.RT.set_defaults(verbose=True)
        shutil.rmtree(self.root, ignore_errors=True)
