"""Concretize / run for FrameCompare (C05)."""
import contextlib
import io
import os

import numpy as np
import pandas as pd

NULL = -9999
STR = {1: 'alpha', 2: 'béta', 3: 'g a m', 9: 'new', 0: ''}
T0 = pd.Timestamp('2020-02-20 10:00:00')


def cell(t, v):
    if v == NULL:
        return None
    if t in ('float64', 'float32', 'Float64'):
        return v / 10000.0
    if t in ('object', 'string', 'str', 'category'):
        return STR.get(v, 's%d' % v)
    if t.startswith('datetime64'):
        return T0 + pd.Timedelta(days=int(v))
    if t in ('bool', 'boolean'):
        return bool(v)
    return int(v)


def series(c):
    t = c['t']
    vals = [cell(t, v) for v in c['v']]
    if t in ('int64', 'int32'):
        if any(v is None for v in vals):
            return pd.Series(vals, dtype='float64')      # pandas: ints with nulls become floats
        return pd.Series(vals, dtype=t)
    if t == 'Int64':
        return pd.Series([pd.NA if v is None else v for v in vals], dtype='Int64')
    if t in ('float64', 'float32'):
        return pd.Series([np.nan if v is None else v for v in vals], dtype=t)
    if t == 'bool':
        if any(v is None for v in vals):
            return pd.Series(vals, dtype=object)
        return pd.Series(vals, dtype=bool)
    if t == 'boolean':
        return pd.Series([pd.NA if v is None else v for v in vals], dtype='boolean')
    if t == 'object':
        return pd.Series(vals, dtype=object)
    if t == 'string':
        return pd.Series([pd.NA if v is None else v for v in vals], dtype='string')
    if t == 'str':
        return pd.Series(vals, dtype='str')
    if t == 'category':
        return pd.Series(vals, dtype=object).astype('category')
    if t.startswith('datetime64'):
        return pd.Series(pd.to_datetime([pd.NaT if v is None else v for v in vals])).astype(t)
    raise ValueError(t)


def frame(f):
    n = len(f[0]['v']) if f else 0
    return pd.DataFrame({c['n']: series(c) for c in f}, index=pd.RangeIndex(n))


def actual_dtype_ok(f):
    """The abstract dtype survives concretization (an int column with nulls would silently become float)."""
    for c in f:
        if c['t'] in ('int64', 'int32', 'bool') and any(v == NULL for v in c['v']):
            return False
    return True


def cond_fn(d):
    if 'a' not in d:
        return pd.Series([True] * len(d), index=d.index)
    m = d['a'] >= 0
    return m.fillna(False).astype(bool)


def kwargs_of(o, as_function=False):
    def flag(f):
        if f['mode'] == 'all':
            return None
        if f['mode'] == 'none':
            return False
        cols = sorted(f['cols'])
        return (lambda df, cols=cols: list(cols)) if as_function else cols
    kw = {'check_types': flag(o['ct']), 'check_data': flag(o['cd']), 'check_order': flag(o['co']),
          'check_extra_cols': flag(o['cx']), 'precision': o['prec'], 'type_matching': o['tm']}
    if o['sortby'] != 'none':
        kw['sortby'] = [o['sortby']]
    if o['cond'] != 'none':
        kw['condition'] = cond_fn
    return kw


class Fail(Exception):
    pass


def _assert_fn(x, msg):
    if not x:
        raise Fail(msg)


def make_ref(tmpdir):
    from tdda.referencetest.referencetest import ReferenceTest
    ReferenceTest.regenerate.clear()
    ReferenceTest.set_defaults(verbose=False, tmp_dir=tmpdir)
    return ReferenceTest(_assert_fn)


def run_check(ref_obj, entry, df, rdf, kw, wd, tag='x'):
    """('pass' | 'fail' | 'error', message)"""
    try:
        with contextlib.redirect_stdout(io.StringIO()), contextlib.redirect_stderr(io.StringIO()):
            if entry == 'check_dataframe':
                r = ref_obj.pandas.check_dataframe(df.copy(), rdf.copy(), create_temporaries=False, **kw)
                msg = r.diffs.message() if hasattr(r.diffs, 'message') else str(r.diffs)
                return ('pass' if r.failures == 0 else 'fail'), msg
            kw2 = {k: v for k, v in kw.items() if k != 'check_extra_cols'}
            if entry == 'assertDataFramesEqual':
                ref_obj.assertDataFramesEqual(df.copy(), rdf.copy(), **kw2)
            elif entry in ('parquet', 'csv'):
                rp = os.path.join(wd, 'ref_%s.%s' % (tag, entry))
                if entry == 'parquet':
                    rdf.to_parquet(rp)
                else:
                    rdf.to_csv(rp, index=False)
                ref_obj.assertDataFrameCorrect(df.copy(), rp, **kw2)
            elif entry == 'ondisk':
                rp = os.path.join(wd, 'ref_%s.parquet' % tag)
                ap = os.path.join(wd, 'act_%s.parquet' % tag)
                rdf.to_parquet(rp)
                df.to_parquet(ap)
                kw3 = {k: v for k, v in kw2.items() if k != 'type_matching'}
                ref_obj.assertOnDiskDataFrameCorrect(ap, rp, **kw3)
        return 'pass', ''
    except Fail as e:
        return 'fail', str(e)
    except AssertionError as e:
        return 'fail', str(e)
    except Exception as e:
        return 'error', '%s: %s' % (type(e).__name__, str(e)[:200])
