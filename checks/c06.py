"""C06 - detection flags exactly the violating records and agrees with verification. (DESIGN 5/C06)"""
import json
import random

from harness import common, tlc, trace
from harness import constraints_run as run_
from harness import detect_session as ds

CLAUSES = {'FlagsAreSpec', 'DetectAgreesWithVerify', 'NoFlagsForSatisfiedConstraint', 'DetectRaises'}


def run(chk):
    thorough = chk.tier == 'thorough'
    rnd = random.Random(chk.seed)
    # 1. per-constraint flags: ConstraintSem case table --------------------------------------------
    rows = run_.model_rows(chk, 4 if thorough else 3)
    if not thorough:
        # longer columns of the narrowest type: duplicates next to several nulls, longer runs of flags
        seen = {json.dumps(r['col'], sort_keys=True) for r in rows}
        rows += [r for r in run_.model_rows(chk, 5, name='MC_ConstraintSem_bool5', coltypes=('bool',))
                 if json.dumps(r['col'], sort_keys=True) not in seen]
    if len(rows) < 1000:
        chk.machinery_error('vacuity: only %d columns in the case table' % len(rows))
    chk.coverage['columns'] = len(rows)
    chk.coverage['failing_constraint_cases'] = sum(1 for r in rows for c in r['cons'] if c['fdem'] and c['spec'] is False)
    if thorough:
        run_.vacuity_run(chk)
    run_.replay(chk, rows, ('detect',), thorough, chk.seed, CLAUSES, 'detection-flags')
    # 2. record level / file level: DetectSession ----------------------------------------------------
    r2 = tlc.run('MC_DetectSession', 'MC_DetectSession.cfg', name='MC_DetectSession', workers=4)
    chk.add_tlc(r2)
    if r2.violated:
        chk.machinery_error('MC_DetectSession violates %s' % r2.violated)
    root = common.subdir('c06_sessions')
    events = ds.record_sessions(rnd, 1200 if thorough else 200, root)
    res, rejected = trace.validate('Trace_DetectSession', 'Trace_DetectSession.cfg', events, name='detect_sessions',
                                   workers=4)
    chk.add_tlc(res)
    chk.coverage['traces_validated_against_impl'] += len({e['tid'] for e in events})
    chk.coverage['trace_events'] = len(events)
    chk.coverage['detect_runs_with_failures'] = sum(1 for e in events if e['ev'] == 'Detect' and e['anyfailed'])
    chk.coverage['detect_runs_clean_over_stale_file'] = sum(
        1 for i, e in enumerate(events) if e['ev'] == 'Detect' and not e['anyfailed'] and e['withpath'])
    for rej in rejected:
        e = events[rej['line'] - 1]
        for clause in rej['bad']:
            sig = {'kind': 'detection-session', 'clause': clause, 'file': e.get('kindfile')}
            if clause == 'NoError':
                sig['error'] = e['raised'].split(':')[0]
            chk.violation(sig, {'event': e, 'failed_clauses': rej['bad'],
                                'session': [x for x in events[:rej['line']] if x['tid'] == e['tid']][-4:],
                                'how': 'recorded detect_df run judged by spec/Trace_DetectSession.tla'})
    for e in events:
        if e['ev'] == 'Detect' and e['anyfailed']:
            chk.sample({'detect_event': {k: e[k] for k in ('flags', 'nfail', 'npass', 'nfailrec', 'outrows', 'opts',
                                                           'fileexists', 'filerows')}})
            break
    chk.coverage['rule'] = ('flags: every failing demanded constraint of the ConstraintSem family on every column of <= N '
                            'cells; sessions: random frames (id + 1..3 typed columns, 3..7 rows), constraints discovered '
                            'from the base frame, perturbed or clean data, every option drawn from the full product, '
                            'csv/parquet/no file, stale files planted')
    chk.coverage['exhaustive'] = True
    chk.assume('detection is demanded for applicable constraints only (ConstraintSem.FlagsDemanded)')
    chk.assume('records are identified in outputs by an id column or the Index column')


def replay(path):
    print(json.dumps(json.load(open(path)), indent=1)[:6000])
    return 0
