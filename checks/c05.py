"""C05 - DataFrame comparison passes exactly when the checked structure and values agree. (DESIGN 5/C05)"""
import json
import os
import random

import numpy as np
import pandas as pd

from harness import common, tlc, trace
from harness import frame_lib as fl
from harness import verify_session as vs


def rich_pair(rnd):
    """A rich frame, a copy or single mutation of it, and what the default comparison must say."""
    df, kinds = vs.rich_frame(rnd)
    while len(df) == 0 and rnd.random() < 0.7:
        df, kinds = vs.rich_frame(rnd)
    act = df.copy(deep=True)
    cols = list(df.columns)
    mut = rnd.choice(['copy', 'copy', 'cell', 'null', 'name', 'order', 'droprow', 'addrow', 'addcol', 'dropcol', 'type',
                      'relabel', 'rowswap', 'emptynull', 'emptynull', 'emptynull', 'catlist', 'catlist', 'catnull'])
    expect = 'fail'
    if mut == 'copy':
        expect = 'pass'
    elif mut == 'emptynull':
        # an empty string on one side and a null on the other, in a string column: a null equals only a null
        scols = [c for c in cols if kinds[c] in ('object_str', 'many_cats')]
        if not scols or len(df) == 0:
            return None
        c = rnd.choice(scols)
        i = rnd.randrange(len(df))
        df = df.copy(deep=True)
        df.loc[df.index[i], c] = ''
        act = df.copy(deep=True)
        if rnd.random() < 0.5:
            act.loc[act.index[i], c] = None
        else:
            df.loc[df.index[i], c] = None
    elif mut in ('catlist', 'catnull'):
        ccols = [c for c in cols if kinds[c] == 'category' and str(df[c].dtype) == 'category']
        if not ccols or len(df) == 0:
            return None
        c = rnd.choice(ccols)
        if mut == 'catlist':
            # the same values and the same nulls; one side merely declares a category that no row uses
            act[c] = act[c].cat.add_categories(['zzzz (unused)'])
            expect = 'pass'
        else:
            # a null on one side against the LAST category label on the other
            last = df[c].cat.categories[-1] if len(df[c].cat.categories) else None
            idx = [i for i, v in enumerate(df[c].tolist()) if v == last]
            if last is None or not idx:
                return None
            act = df.copy(deep=True)
            act.loc[act.index[idx[0]], c] = None
    elif mut == 'relabel':
        # the same values in the same positions under other row labels (a filtered subset, a string index):
        # the row index is not one of the things compared
        if len(df) == 0:
            return None
        act.index = rnd.choice([list(range(5, 5 + len(df))), ['r%d' % i for i in range(len(df))], list(range(len(df) - 1, -1, -1))])
        expect = 'pass'
    elif mut == 'rowswap':
        # rows in another order that still carry their original labels: corresponding values are those in the same position
        if len(df) < 2:
            return None
        act = df.iloc[::-1].copy()
        same = all(all((pd.isna(a) and pd.isna(b)) or (not pd.isna(a) and not pd.isna(b) and a == b)
                       for a, b in zip(df[c].tolist(), act[c].tolist())) for c in cols)
        if same:
            return None
    elif mut in ('cell', 'null'):
        if len(df) == 0:
            return None
        c = rnd.choice(cols)
        i = rnd.randrange(len(df))
        old = df[c].iloc[i]
        k = kinds[c]
        try:
            if mut == 'null':
                if pd.isna(old):
                    return None
                if k in ('int64', 'uint8', 'bool', 'int_extreme'):
                    return None                     # a null would change the dtype as well
                act.loc[act.index[i], c] = rnd.choice([None, None, pd.NA]) if k in ('object_str', 'objbool', 'dateobj', 'many_cats', 'allnull_obj', 'longtext') else (
                    pd.NaT if k.startswith('dt_') else (np.nan if k in ('float64', 'float_special', 'allnull_float') else pd.NA))
            else:
                if pd.isna(old):
                    return None
                if k in ('int64', 'Int64', 'uint8'):
                    new = int(old) + 1 if int(old) < 250 else int(old) - 1
                elif k == 'int_extreme':
                    new = 5 if int(old) != 5 else 6
                elif k in ('float64', 'Float64'):
                    new = float(old) + 0.5
                elif k == 'float_special':
                    new = 12.5 if old != 12.5 else 13.5
                elif k in ('bool', 'boolean', 'objbool'):
                    new = not bool(old)
                elif k in ('object_str', 'many_cats'):
                    new = str(old) + 'X'
                elif k == 'category':
                    cats = [x for x in df[c].cat.categories if x != old]
                    if not cats:
                        return None
                    new = cats[0]
                elif k.startswith('dt_'):
                    new = old + pd.Timedelta(days=1)
                elif k == 'dateobj':
                    new = old + pd.Timedelta(days=1).to_pytimedelta()
                else:
                    return None
                act.loc[act.index[i], c] = new
        except Exception:
            return None
        if str(act[c].dtype) != str(df[c].dtype):
            return None
    elif mut == 'name':
        c = rnd.choice(cols)
        act = act.rename(columns={c: str(c) + '_renamed'})
    elif mut == 'order':
        if len(cols) < 2:
            return None
        act = act[cols[::-1]]
    elif mut == 'droprow':
        if len(df) == 0:
            return None
        act = act.iloc[:-1].reset_index(drop=True)
    elif mut == 'addrow':
        if len(df) == 0:
            return None
        act = pd.concat([act, act.iloc[[0]]], ignore_index=True)
        if [str(t) for t in act.dtypes] != [str(t) for t in df.dtypes]:
            return None
    elif mut == 'addcol':
        act['__extra__'] = 1
    elif mut == 'dropcol':
        if len(cols) < 2:
            return None
        act = act.drop(columns=[cols[-1]])
    elif mut == 'type':
        c = rnd.choice(cols)
        k = kinds[c]
        try:
            if k in ('int64', 'uint8'):
                act[c] = act[c].astype('float64')
            elif k == 'float64' and not df[c].isna().any() and (df[c] == df[c].round()).all():
                act[c] = act[c].astype('int64')
            elif k == 'bool':
                act[c] = act[c].astype('int64')
            elif k == 'dt_ns':
                act[c] = act[c].astype('datetime64[us]')
            elif k == 'dt_s':
                act[c] = act[c].astype('datetime64[ns]')
            else:
                return None
        except Exception:
            return None
    return df, act, mut, expect, kinds


def run(chk):
    thorough = chk.tier == 'thorough'
    rnd = random.Random(chk.seed + 5)
    cfg = open(os.path.join(common.SPEC, 'MC_FrameCompare.cfg')).read().replace('EmitRows = FALSE', 'EmitRows = TRUE')
    r1 = tlc.run('MC_FrameCompare', cfg_text=cfg, name='MC_FrameCompare', timeout=1200)
    chk.add_tlc(r1)
    if r1.violated:
        chk.machinery_error('MC_FrameCompare violates %s' % r1.violated)
    rows = sorted(r1.rows, key=lambda r: json.dumps([r['ref'], r['df']]))
    if len(rows) < 150:
        chk.machinery_error('vacuity: only %d (reference, mutation) pairs' % len(rows))
    wd = common.subdir('c05')
    tmpd = os.path.join(wd, 'tmp')
    os.makedirs(tmpd, exist_ok=True)
    refobj = fl.make_ref(tmpd)
    skipped = 0
    # 1. spec -> code: every (reference, mutation, option set) on check_dataframe -----------------------
    for r in rows:
        if not (fl.actual_dtype_ok(r['ref']) and fl.actual_dtype_ok(r['df'])):
            skipped += 1
            continue
        rdf, adf = fl.frame(r['ref']), fl.frame(r['df'])
        res = sorted(r['res'], key=lambda x: json.dumps(x['o'], sort_keys=True))
        if not thorough:
            res = rnd.sample(res, 60)
        for x in res:
            o = x['o']
            kw = fl.kwargs_of(o, as_function=rnd.random() < 0.3)
            got, msg = fl.run_check(refobj, 'check_dataframe', adf, rdf, kw, wd)
            chk.coverage['replayed_cases'] += 1
            chk.count_case(json.dumps([r['ref'], r['df'], o], sort_keys=True), nontrivial=r['mut'] != 'copy')
            if x['dem']:
                if got != x['spec']:
                    clause = 'NeverAnInternalError' if got == 'error' else ('CopyPasses' if x['spec'] == 'pass' else 'CheckedChangeFails')
                    sig = {'kind': 'frame-compare', 'clause': clause, 'mut': r['mut']}
                    if got == 'error':
                        sig['error'] = msg.split(':')[0]
                        sig['textcol'] = any(c['t'] in ('string', 'category', 'str') for c in r['ref'] + r['df'])
                    chk.violation(sig, {'reference': r['ref'], 'actual': r['df'], 'mutation': r['mut'], 'options': o, 'observed': got,
                                        'expected': x['spec'], 'message': msg[:300],
                                        'how': 'PandasComparison.check_dataframe(actual, reference, **options)'})
            elif x['impl'] != 'n/a' and got != x['impl']:
                chk.drift_case({'reference': r['ref'], 'actual': r['df'], 'options': o, 'observed': got, 'impl': x['impl']})
    chk.coverage['rows_skipped_dtype_not_expressible'] = skipped
    # 2. the assertion entry points (in-memory, parquet, CSV, on disk) with default-like options -------------
    stable = [r for r in rows if all(c['t'] in ('int64', 'float64', 'bool', 'Int64') for c in r['ref'] + r['df'])
              and fl.actual_dtype_ok(r['ref']) and fl.actual_dtype_ok(r['df'])]
    for i, r in enumerate(stable if thorough else rnd.sample(stable, min(60, len(stable)))):
        rdf, adf = fl.frame(r['ref']), fl.frame(r['df'])
        dflt = next(x for x in r['res'] if x['o']['ct']['mode'] == 'all' and x['o']['cd']['mode'] == 'all' and x['o']['co']['mode'] == 'all'
                    and x['o']['cx']['mode'] == 'all' and x['o']['tm'] == 'strict' and x['o']['sortby'] == 'none'
                    and x['o']['cond'] == 'none' and x['o']['prec'] == 4)
        for entry in ('assertDataFramesEqual', 'parquet', 'ondisk', 'csv'):
            if entry == 'csv' and (any(c['t'] in ('Int64', 'bool') for c in r['ref'] + r['df']) or len(r['ref'][0]['v']) == 0):
                continue
            if entry == 'ondisk' and r['mut'] == 'addcol':
                continue          # the on-disk entry point has no extra-column check to pass or skip
            kw = {'precision': 4}
            got, msg = fl.run_check(refobj, entry, adf, rdf, kw, wd, tag=str(i))
            chk.coverage['replayed_cases'] += 1
            want = dflt['spec']
            if got != want:
                clause = 'NeverAnInternalError' if got == 'error' else ('CopyPasses' if want == 'pass' else 'CheckedChangeFails')
                sig = {'kind': 'frame-compare', 'clause': clause, 'mut': r['mut'], 'entry': entry}
                if got == 'error':
                    sig['error'] = msg.split(':')[0]
                chk.violation(sig, {'reference': r['ref'], 'actual': r['df'], 'mutation': r['mut'], 'entry': entry, 'observed': got,
                                    'expected': want, 'message': msg[:300]})
    # 2b. the same entry points under non-default option sets (each kind of check on its own selected columns) --------
    nopt = 0
    for i, r in enumerate(stable if thorough else rnd.sample(stable, min(60, len(stable)))):
        rdf, adf = fl.frame(r['ref']), fl.frame(r['df'])
        cands = [x for x in r['res'] if x['dem'] and x['o']['cx']['mode'] == 'all'
                 and not (x['o']['ct']['mode'] == 'all' and x['o']['cd']['mode'] == 'all' and x['o']['co']['mode'] == 'all')]
        for x in rnd.sample(cands, min(len(cands), 8 if thorough else 4)):
            o = x['o']
            for entry in ('assertDataFramesEqual', 'parquet', 'ondisk'):
                if entry == 'ondisk' and (o['tm'] != 'strict' or r['mut'] == 'addcol'):
                    continue
                kw = fl.kwargs_of(o, as_function=rnd.random() < 0.3)
                got, msg = fl.run_check(refobj, entry, adf, rdf, kw, wd, tag='o%d' % i)
                chk.coverage['replayed_cases'] += 1
                nopt += 1
                if got != x['spec']:
                    clause = 'NeverAnInternalError' if got == 'error' else ('CopyPasses' if x['spec'] == 'pass' else 'CheckedChangeFails')
                    sig = {'kind': 'frame-compare', 'clause': clause, 'mut': r['mut'], 'entry': entry, 'options': 'non-default'}
                    if got == 'error':
                        sig['error'] = msg.split(':')[0]
                    chk.violation(sig, {'reference': r['ref'], 'actual': r['df'], 'mutation': r['mut'], 'entry': entry, 'options': o,
                                        'observed': got, 'expected': x['spec'], 'message': msg[:300]})
    chk.coverage['entry_point_option_cases'] = nopt
    # 3. code -> spec: rich frames (all recognised dtypes) with single mutations ----------------------------------
    events, detail = [], {}
    n = 3000 if thorough else 500
    tid = 0
    for _ in range(n):
        p = rich_pair(rnd)
        if p is None:
            continue
        rdf, adf, mut, expect, kinds = p
        got, msg = fl.run_check(refobj, 'check_dataframe', adf, rdf, {}, wd)
        events.append({'tid': tid, 'ev': 'Compare', 'outcome': got, 'expect': expect, 'hasmessage': bool(msg.strip()), 'mut': mut})
        detail[tid] = {'kinds': kinds, 'mutation': mut, 'reference_head': json.loads(json.dumps(rdf.head(4).to_dict(orient='list'), default=str)),
                       'actual_head': json.loads(json.dumps(adf.head(4).to_dict(orient='list'), default=str)), 'message': msg[:300]}
        tid += 1
        # the same pair against a reference FILE: a CSV file does not keep dtypes, so only 'never an internal error' is
        # demanded of a copy; a changed / missing value, row or column must still fail
        if rnd.random() < 0.5:
            entry = rnd.choice(['csv', 'csv', 'parquet'])
            try:
                import warnings
                with warnings.catch_warnings():
                    warnings.simplefilter('ignore')
                    (rdf.to_csv if entry == 'csv' else rdf.to_parquet)(os.path.join(wd, 'probe.' + entry), **({'index': False} if entry == 'csv' else {}))
            except Exception:
                continue        # the reference itself cannot be written in this format (environment)
            got2, msg2 = fl.run_check(refobj, entry, adf, rdf, {}, wd, tag='rich')
            exp2 = 'fail' if (expect == 'fail' and mut in ('cell', 'droprow', 'addrow', 'dropcol', 'name')) else 'noerror'
            events.append({'tid': tid, 'ev': 'Compare', 'outcome': got2, 'expect': exp2, 'hasmessage': bool(msg2.strip()), 'mut': mut})
            detail[tid] = dict(detail[tid - 1], entry=entry, message=msg2[:300])
            tid += 1
    # 3b. sortby with two keys: the same records in another order pass, a changed value still fails; the orders include
    #     'ascending in one key only' (sorted by a group column, as a GROUP BY leaves a table)
    for j in range(600 if thorough else 120):
        ng, per = rnd.randint(2, 4), rnd.randint(2, 4)
        recs_ = [(g_, v_) for g_ in range(ng) for v_ in rnd.sample(range(10, 99), per)]
        base = pd.DataFrame({'g': [a_ for a_, _ in recs_], 'v': [b_ for _, b_ in recs_], 'x': [rnd.randint(0, 999) / 8.0 for _ in recs_],
                             's': pd.Series([rnd.choice(['a', 'b', 'cc']) for _ in recs_], dtype=object)})
        def arranged(df_, how):
            if how == 'shuffled':
                return df_.sample(frac=1.0, random_state=rnd.randint(0, 10**6)).reset_index(drop=True)
            if how == 'by_g':
                return df_.sample(frac=1.0, random_state=rnd.randint(0, 10**6)).sort_values('g', kind='stable').reset_index(drop=True)
            if how == 'by_v':
                return df_.sort_values('v').reset_index(drop=True)
            return df_.sort_values(['g', 'v']).reset_index(drop=True)
        rdf = arranged(base, rnd.choice(['shuffled', 'by_g', 'by_v', 'sorted']))
        adf = arranged(base, rnd.choice(['shuffled', 'by_g', 'by_g', 'by_v', 'sorted']))
        expect = 'pass'
        if rnd.random() < 0.4:
            adf.loc[rnd.randrange(len(adf)), 'x'] += 1.0
            expect = 'fail'
        keys = rnd.choice([['g', 'v'], ['v', 'g'], ['g', 'v', 'x']])
        entry = rnd.choice(['check_dataframe', 'assertDataFramesEqual', 'parquet'])
        if entry == 'parquet':
            rdf, adf = rdf.drop(columns=['s']), adf.drop(columns=['s'])       # (object strings do not survive parquet: D23)
        got, msg = fl.run_check(refobj, entry, adf, rdf, {'sortby': keys}, wd, tag='sb')
        events.append({'tid': tid, 'ev': 'Compare', 'outcome': got, 'expect': expect, 'hasmessage': bool(msg.strip()), 'mut': 'sortby2'})
        detail[tid] = {'kinds': {}, 'mutation': 'the same records in another order, sortby=%r%s' % (keys, '' if expect == 'pass' else ', one value changed'),
                       'entry': entry, 'reference_head': rdf.head(6).to_dict(orient='list'), 'actual_head': adf.head(6).to_dict(orient='list'), 'message': msg[:300]}
        tid += 1
    # 4. histories on one comparison object: explicit and default precisions interleaved ------------------------------
    nsess = 300 if thorough else 60
    for s_ in range(nsess):
        obj = fl.make_ref(tmpd)
        for step in range(rnd.randint(2, 4)):
            k = rnd.randint(1, 8)
            precarg = rnd.choice([-1, -1, 0, 1, 2, 3, 4, 5, 7])
            base = pd.DataFrame({'id': [1, 2, 3], 'x': [1.0, 2.2, -4.0]})
            act = base.copy()
            act.loc[1, 'x'] = 2.2 + 3 * 10.0 ** (-k)      # never near a rounding tie
            kw = {} if precarg == -1 else {'precision': precarg}
            entry = rnd.choice(['check_dataframe', 'assertDataFramesEqual', 'parquet', 'ondisk'])
            got, msg = fl.run_check(obj, entry, act, base, kw, wd, tag='p%d' % s_)
            events.append({'tid': tid, 'ev': 'Prec', 'outcome': got, 'precarg': precarg, 'k': k, 'step': step, 'mut': 'precision-history',
                           'expect': 'n/a', 'hasmessage': True})
            detail[tid] = {'kinds': {}, 'mutation': 'precision-history', 'entry': entry, 'step_in_session': step,
                           'difference': '3e-%d' % k, 'precision_argument': None if precarg == -1 else precarg, 'message': msg[:200]}
            tid += 1
    res, rejected = trace.validate('Trace_FrameCompare', 'Trace_FrameCompare.cfg', events, name='frame_pairs', workers=4)
    chk.add_tlc(res)
    chk.coverage['traces_validated_against_impl'] += len(events)
    for rej in rejected:
        e = events[rej['line'] - 1]
        d = detail[e['tid']]
        for clause in rej['bad']:
            sig = {'kind': 'frame-compare', 'clause': clause, 'mut': e['mut']}
            if e['outcome'] == 'error':
                sig['error'] = d['message'].split(':')[0]
                sig['textcol'] = any(k in ('category', 'object_str', 'many_cats') for k in d['kinds'].values())
            chk.violation(sig, dict(d, event=e, how='check_dataframe(actual, reference) on a rich frame and its copy / single mutation; '
                                                    'judged by spec/Trace_FrameCompare.tla'))
    chk.sample({'model_row': {'ref': rows[0]['ref'], 'df': rows[0]['df'], 'mut': rows[0]['mut'], 'one_option_result': rows[0]['res'][0]}})
    chk.coverage['rule'] = ('8 reference frames x every single mutation (cell beyond / within precision, null, name, type, order, '
                            'add/drop column, add/drop row) x 255 option sets (check_* as None/False/list/function, type_matching, '
                            'sortby, condition, precision) on check_dataframe; default options through assertDataFramesEqual, '
                            'parquet, CSV and on-disk entry points; rich frames over 21 column kinds with single mutations')
    chk.coverage['exhaustive'] = thorough
    chk.assume('a categorical column and a string column with equal values are the same type; no half-way rounding cases')
    chk.assume('file entry points are replayed on dtypes the file format preserves')


def replay(path):
    print(json.dumps(json.load(open(path)), indent=1, ensure_ascii=False)[:6000])
    return 0
