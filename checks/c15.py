"""C15 - failed text assertions leave faithful artefacts; passing ones leave none. (DESIGN 5/C15)

Model: spec/TextCompare.tla (reconstruct as a two-cursor machine with its postcondition RebuildOK;
BinSpec) checked by MC_TextArtefacts.  Spec -> code: every failing demanded (texts, options) case and a
set of passing ones run through assertStringCorrect / assertTextFileCorrect with a fresh temporary
directory and a canary directory; every pair of byte strings of <= 3 bytes through
assertBinaryFileCorrect.  The observations of each run are one trace line judged by Trace_TextArtefacts.
"""
import hashlib
import json
import os
import random
import re
import shutil

from harness import common, tlc, trace
from harness import text_lib as tl

RE_CMD = re.compile(r'(Compare (raw |post-processed )?with|Initialize (raw |post-processed )?from actual content with):\n\s+(\S+) (\S+) (\S+)')
RE_BIN = re.compile(r'First difference at byte offset (\d+), (?:both files have length (\d+)|actual length (\d+), expected length (\d+))')


def snapshot(d):
    out = {}
    for root, _, files in os.walk(d):
        for f in files:
            p = os.path.join(root, f)
            st = os.stat(p)
            with open(p, 'rb') as fh:
                h = hashlib.sha1(fh.read()).hexdigest()
            out[os.path.relpath(p, d)] = (st.st_size, st.st_mtime_ns, h)
    return out


def read_lines(p):
    with open(p, encoding='utf-8', newline='') as f:
        return f.read()


def body_lines(text):
    """Lines of a post-processed file after its '***' header block."""
    ls = text.split('\n')
    if ls and ls[0] == '***':
        # header: ***, command lines ..., ***, blank
        try:
            k = ls.index('***', 1)
            ls = ls[k + 2:]
        except ValueError:
            pass
    return ls


def run_text_case(ref, wd, tmpd, canary, r, res, v, entry, rnd, tid):
    """One assertion; returns the trace event."""
    o = res['o']
    o2 = {'ls': o['ls'], 'rs': o['rs'], 'isub': o['isub'], 'rem': o['rem'], 'pats': o['pats'], 'mpc': o['mpc']}
    kw = tl.kwargs_of(o2, v)
    la, le = tl.lines(r['A'], v), tl.lines(r['E'], v)
    nl_a = rnd.random() < 0.7
    for d in (tmpd,):
        shutil.rmtree(d, ignore_errors=True)
        os.makedirs(d)
    import tempfile
    systmp = tempfile.gettempdir()
    # an earlier failure of the same assertion in the same temporary directory (the directory lives on between runs): its
    # actual has the same number of bytes and other content; what the failure under test reports must be about ITS actual
    earlier = False
    if entry == 'string' and tid % 3 == 2 and la and la[0] and la[0][0].isascii():
        la0 = [('Z' if la[0][0] != 'Z' else 'Y') + la[0][1:]] + la[1:]
        tl.call_entry(ref, entry, la0, le, kw, wd, nl_a, True, tag='c15')
        earlier = True
    tmp_before = snapshot(tmpd)
    before_s = set(os.listdir(systmp))
    before_c = snapshot(canary)
    before_w = snapshot(wd)
    # the library's own naming convention for an actual result kept in the temporary directory: actual-<reference name>
    own_actual = os.path.join(tmpd, 'actual-ref_c15.txt') if (entry == 'file' and tid % 4 == 1) else None
    first_pair = None
    if entry == 'files':
        # a list of two pairs: on the first one an exclusion of this very option set takes effect (and it passes)
        m_ = tl.TOKMAPS[v]
        if o['isub']:
            first_pair = ([m_['a']], [m_['I'] + m_['b']])
        elif o['pats']:
            first_pair = ([m_['a'] + m_['1']], [m_['a'] + m_['2']])
        elif o['rem']:
            first_pair = ([m_['R'] + m_['a'], m_['b']], [m_['b']])
    got, msg = tl.call_entry(ref, entry, la, le, kw, wd, nl_a, True, tag='c15', actual_path=own_actual, first_pair=first_pair)
    after_tmp = {p_: x_ for p_, x_ in snapshot(tmpd).items() if tmp_before.get(p_) != x_}      # written or rewritten by this call
    if own_actual:
        after_tmp.pop(os.path.relpath(own_actual, tmpd), None)
    after_c = snapshot(canary)
    after_w = snapshot(wd)
    # files created/changed in the work dir other than the ones the harness wrote itself
    own = {'ref_c15.txt', 'act_c15.txt', 'ref2_c15.txt', 'act2_c15.txt'}
    tmprel = os.path.relpath(tmpd, wd)
    outside = [p for p in after_w if not p.startswith(tmprel + os.sep) and p not in own and after_w[p] != before_w.get(p)]
    outside += [p for p in after_c if after_c[p] != before_c.get(p)]
    outside += [os.path.join(systmp, p) for p in set(os.listdir(systmp)) - before_s]     # the system temporary directory is not the configured one
    ev = {'tid': tid, 'ev': 'Text', 'entry': entry, 'outcome': got, 'expectpass': bool(res['pass']), 'earlier_failure': earlier,
          'tmpfiles': len(after_tmp), 'outside': len(outside), 'raised': 'none',
          'cmdfiles_exist': True, 'has_cmd': False, 'has_actual_cmd': False, 'actual_faithful': True, 'has_post': False,
          'post_expected': bool(res['rdem'] and (res['effect'] or entry == 'string')),
          'diffs_match': True, 'exclusions': bool(o['isub'] or o['rem'] or o['pats'])}
    if got == 'error':
        ev['raised'] = msg.split(':')[0]
        return ev, msg
    if got == 'fail':
        cmds = RE_CMD.findall(msg)
        ev['has_cmd'] = bool(cmds)
        for c in cmds:
            kind = (c[1] or c[2]).strip()
            a_path, e_path = c[4], c[5]
            if not (os.path.exists(a_path) and os.path.exists(e_path)):
                ev['cmdfiles_exist'] = False
                continue
            if kind in ('raw', ''):
                ev['has_actual_cmd'] = True
            if kind in ('raw', '') and entry == 'string':
                # the file given as actual holds the actual content (lines; final newline not demanded)
                if not os.path.abspath(a_path).startswith(os.path.abspath(tmpd)):
                    ev['outside'] += 1
                if read_lines(a_path).splitlines() != la:
                    ev['actual_faithful'] = False
                    ev['actual_file_lines'] = read_lines(a_path).splitlines()
            if 'act2_c15' in a_path or 'ref2_c15' in e_path or 'actual-ref2_c15' in a_path:
                ev['first_pair_reported'] = True        # the first pair passes: nothing about it belongs in the message
                continue
            if kind in ('raw', '') and entry in ('file', 'files'):
                given = own_actual or os.path.join(wd, 'act_c15.txt')
                if os.path.abspath(a_path) != os.path.abspath(given):
                    ev['actual_faithful'] = False
                elif read_lines(a_path).splitlines() != la:
                    # the file named as actual must still hold the actual content (nothing may overwrite the user's file)
                    ev['actual_faithful'] = False
                    ev['actual_file_lines'] = read_lines(a_path).splitlines()
            if kind == 'post-processed':
                ev['has_post'] = True
                pa, pe = body_lines(read_lines(a_path)), body_lines(read_lines(e_path))
                n = max(len(pa), len(pe))
                pa += ['<none>'] * (n - len(pa))
                pe += ['<none>'] * (n - len(pe))
                diffs = [[x, y] for x, y in zip(pa, pe) if x != y]
                want = [[tl.line(p[0], v), tl.line(p[1], v)] for p in res['diffs']]

                def asked(x_):
                    # (the specification's pairs are pairs of NORMALISED lines; a concrete token may itself begin with a blank -
                    # the remove marker of variant 2 - which the requested stripping takes away)
                    x_ = x_.lstrip() if o['ls'] else x_
                    return x_.rstrip() if o['rs'] else x_
                if res['rdem'] and [[asked(a_), asked(b_)] for a_, b_ in diffs] != [[asked(a_), asked(b_)] for a_, b_ in want]:
                    ev['diffs_match'] = False
                    ev['post_diffs'] = diffs
                    ev['want_diffs'] = want
    return ev, msg


def run(chk):
    thorough = chk.tier == 'thorough'
    rnd = random.Random(chk.seed)
    r1 = tlc.run('MC_TextArtefacts', 'MC_TextArtefacts.cfg', name='MC_TextArtefacts', timeout=1800)
    chk.add_tlc(r1)
    if r1.violated:
        chk.machinery_error('MC_TextArtefacts violates %s' % r1.violated)
    if thorough:
        r2 = tlc.run('MC_TextArtefacts', cfg_text=open(os.path.join(common.SPEC, 'MC_TextArtefacts.cfg')).read()
                     .replace('Defects = {}', 'Defects = {"MapOverwrite"}').replace('EmitRows = TRUE', 'EmitRows = FALSE'),
                     name='MC_TextArtefacts_mapbug')
        chk.add_tlc(r2)
        chk.coverage['mapbug_model_violates_RebuildHolds'] = 'RebuildHolds' in r2.violated
        if 'RebuildHolds' not in r2.violated:
            chk.machinery_error('vacuity: the MapOverwrite model should violate RebuildHolds')
    text_rows = sorted([r for r in r1.rows if r['mode'] == 'text'], key=lambda r: json.dumps([r['A'], r['E']]))
    bin_rows = sorted([r for r in r1.rows if r['mode'] == 'bin'], key=lambda r: json.dumps([r['a'], r['e']]))
    if len(text_rows) < 5000 or len(bin_rows) < 1000:
        chk.machinery_error('vacuity: %d text rows, %d binary rows' % (len(text_rows), len(bin_rows)))
    wd = common.subdir('c15_work')
    tmpd = os.path.join(wd, 'tmp')
    canary = common.subdir('c15_canary')
    with open(os.path.join(canary, 'keep.txt'), 'w') as f:
        f.write('canary\n')
    # a second object whose configured temporary directory does not exist yet when the object is made (unittest builds
    # test objects at collection time, before any setUp creates directories); the directory is created afterwards
    tmpd_late = os.path.join(wd, 'tmp_made_later')
    shutil.rmtree(tmpd_late, ignore_errors=True)
    ref_late = tl.make_ref(tmpd_late)
    os.makedirs(tmpd, exist_ok=True)
    ref = tl.make_ref(tmpd)
    late_used = 0
    events = []
    detail = {}
    cases = []
    for r in text_rows:
        for res in r['res']:
            if res['dem']:
                cases.append((r, res))
    rnd.shuffle(cases)
    # favour cases with removals and ignores (where reconstruction has work to do)
    cases.sort(key=lambda c: -(int(c[1]['removes']) + int(bool(c[1]['o']['isub'] or c[1]['o']['pats']))))
    ncases = len(cases) if thorough else 3500
    # always include the cases whose actual has no lines (after removals)
    empties = [c for c in cases[ncases:] if not [l for l in c[0]['A'] if not (c[1]['o']['rem'] and 'R' in l)]]
    # failing pairs on which no exclusion takes effect, as the SECOND pair of a list of files whose first pair does use one
    plain_fail = [c for c in cases[ncases:] if c[1]['rdem'] and not c[1]['effect'] and (c[1]['o']['isub'] or c[1]['o']['pats'] or c[1]['o']['rem'])]
    second = set(id(c[1]) for c in (plain_fail if thorough else rnd.sample(plain_fail, min(300, len(plain_fail)))))
    tid = 0
    for r, res in cases[:ncases] + empties + [c for c in plain_fail if id(c[1]) in second]:
        v = rnd.randrange(3)
        entry = 'files' if id(res) in second else rnd.choice(['string', 'string', 'file', 'files'])
        late = tid % 6 == 5
        late_used += int(late)
        ev, msg = run_text_case(ref_late if late else ref, wd, tmpd_late if late else tmpd, canary, r, res, v, entry, rnd, tid)
        events.append(ev)
        detail[tid] = {'A': r['A'], 'E': r['E'], 'opts': res['o'], 'variant': v, 'entry': entry,
                       'actual_lines': tl.lines(r['A'], v), 'reference_lines': tl.lines(r['E'], v), 'message': msg[:1500]}
        chk.coverage['replayed_cases'] += 1
        chk.count_case(json.dumps([r['A'], r['E'], res['o']], sort_keys=True), nontrivial=not res['pass'])
        tid += 1
    # assertions that pass only through the permutation allowance: a passing assertion writes nothing
    for j in range(120 if thorough else 30):
        base_ = rnd.sample([['a'], ['b'], ['a', '1'], ['a', '2'], [' ', 'a']], rnd.randint(2, 3))
        perm_ = list(base_)
        while perm_ == base_:
            rnd.shuffle(perm_)
        res_ = {'o': {'ls': False, 'rs': False, 'isub': rnd.random() < 0.3, 'rem': False, 'pats': [], 'mpc': len(base_)}, 'pass': True, 'dem': True,
                'rdem': False, 'effect': False, 'diffs': [], 'removes': False}
        r_ = {'A': perm_, 'E': base_}
        v = rnd.randrange(3)
        entry = rnd.choice(['string', 'string', 'file', 'files'])
        ev, msg = run_text_case(ref, wd, tmpd, canary, r_, res_, v, entry, rnd, tid)
        events.append(ev)
        detail[tid] = {'A': r_['A'], 'E': r_['E'], 'opts': res_['o'], 'variant': v, 'entry': entry, 'permutation_within_allowance': True,
                       'actual_lines': tl.lines(r_['A'], v), 'reference_lines': tl.lines(r_['E'], v), 'message': msg[:800]}
        chk.coverage['replayed_cases'] += 1
        tid += 1
    # binary
    # every model pair as it is, and behind a common prefix of thousands of identical bytes (MC_TextArtefacts.BinaryShift)
    picked = list(bin_rows if thorough else rnd.sample(bin_rows, 500))
    for r0 in (rnd.sample(bin_rows, min(len(bin_rows), 1200)) if thorough else rnd.sample(bin_rows, 160)):
        k_ = rnd.choice([4095, 4096, 4097, 8192, 9000, 65536 + 3])
        picked.append({'a': [7] * k_ + list(r0['a']), 'e': [7] * k_ + list(r0['e']), 'shift': k_,
                       'bin': {'offset': r0['bin']['offset'] + k_, 'alen': r0['bin']['alen'] + k_, 'elen': r0['bin']['elen'] + k_}})
    for r in picked:
        shutil.rmtree(tmpd, ignore_errors=True)
        os.makedirs(tmpd)
        ap, rp = os.path.join(wd, 'a.bin'), os.path.join(wd, 'r.bin')
        with open(ap, 'wb') as f:
            f.write(bytes(r['a']))
        with open(rp, 'wb') as f:
            f.write(bytes(r['e']))
        bc = snapshot(canary)
        try:
            ref.assertBinaryFileCorrect(ap, rp)
            got, msg = 'pass', ''
        except tl.Fail as e:
            got, msg = 'fail', str(e)
        except Exception as e:
            got, msg = 'error', '%s: %s' % (type(e).__name__, e)
        m = RE_BIN.search(msg)
        ev = {'tid': tid, 'ev': 'Binary', 'outcome': got, 'expectpass': r['a'] == r['e'], 'raised': 'none' if got != 'error' else msg.split(':')[0],
              'tmpfiles': len(snapshot(tmpd)), 'outside': 0 if snapshot(canary) == bc else 1,
              'offset': int(m.group(1)) if m else -1,
              'alen': int(m.group(2) or m.group(3)) if m else -1, 'elen': int(m.group(2) or m.group(4)) if m else -1,
              'want_offset': r['bin']['offset'], 'want_alen': r['bin']['alen'], 'want_elen': r['bin']['elen'],
              'cmdfiles_exist': all(os.path.exists(c[4]) and os.path.exists(c[5]) for c in RE_CMD.findall(msg)),
              'has_cmd': bool(RE_CMD.findall(msg)), 'has_actual_cmd': bool(RE_CMD.findall(msg))}
        events.append(ev)
        detail[tid] = {'a': r['a'][-8:] if r.get('shift') else r['a'], 'e': r['e'][-8:] if r.get('shift') else r['e'], 'common_prefix_bytes': r.get('shift', 0), 'message': msg[:600]}
        chk.coverage['replayed_cases'] += 1
        chk.count_case(json.dumps([r['a'][-8:], r['e'][-8:], r.get('shift', 0)]), nontrivial=r['a'] != r['e'])
        tid += 1
    clean = [{k: v for k, v in e.items() if k not in ('post_diffs', 'want_diffs', 'actual_file_lines')} for e in events]
    res, rejected = trace.validate('Trace_TextArtefacts', 'Trace_TextArtefacts.cfg', clean, name='artefacts', workers=4)
    chk.add_tlc(res)
    chk.coverage['traces_validated_against_impl'] += len(events)
    for rej in rejected:
        e = events[rej['line'] - 1]
        d = detail[e['tid']]
        for clause in rej['bad']:
            sig = {'kind': 'text-artefacts', 'clause': clause, 'entry': e.get('entry', 'binary')}
            if 'opts' in d:
                o = d['opts']
                sig['opts'] = ''.join(k for k in ('ls', 'isub', 'rem') if o[k]) + (',pats' if o['pats'] else '')
            chk.violation(sig, {'event': e, 'case': d, 'how': 'assertion on real files with a fresh tmp_dir and a canary '
                                                            'directory; judged by spec/Trace_TextArtefacts.tla'})
    chk.sample({'text_event': clean[0], 'case': {k: detail[0][k] for k in ('A', 'E', 'opts')}})
    chk.coverage['rule'] = ('texts of <= 3 lines over a 5-line pool x {lstrip, ignore_substrings, remove_lines, \\d+ pattern}: every '
                            'demanded failing case (and passing ones of <= 3 lines in total) through the string / file assertions; '
                            'every pair of byte strings of <= 3 bytes over {0,1,255}; non-trivial = expected to fail')
    chk.coverage['exhaustive'] = thorough
    chk.assume("'holds exactly the actual content' is demanded as: same lines (final newline of the raw actual file is not demanded)")
    chk.assume('the post-processed pair is demanded when both texts have the same number of lines after removals')


def replay(path):
    print(json.dumps(json.load(open(path)), indent=1)[:6000])
    return 0
