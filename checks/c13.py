"""C13 - every expression rexpy returns compiles and matches at least one example. (DESIGN 5/C13)"""
import json
import random
import re

from harness import common, tlc, trace
from harness import rex_lib as rx
from harness import rex_runs as rr
from checks import c03


def result_event(tid, examples, kw, sizekw, rnd):
    r = rx.run_extract(examples, **kw)
    kept = rx.kept_examples(examples, kw.get('strip', False), kw.get('remove_empties', False))
    # the strings the expressions are matched against: under strip the strings AS SUPPLIED (the expressions are wrapped for that)
    if kw.get('strip'):
        items = examples.keys() if isinstance(examples, dict) else examples
        subjects = sorted({e for e in items if e is not None and not (isinstance(examples, dict) and examples[e] == 0)
                           and not (kw.get('remove_empties') and e.strip() == '')})
    else:
        subjects = sorted(kept)
    ids = {s: 'e%d' % i for i, s in enumerate(subjects)}
    ev = {'tid': tid, 'ev': 'Result', 'raised': r['raised'].split(':')[0] if r['raised'] != 'none' else 'none',
          'rows': [], 'distincttexts': True, 'nkept': len(kept), 'compiles': True, 'anchored': True,
          'hastag': False, 'tagrows': []}
    if r['raised'] != 'none':
        return ev, r
    rex = r['rex']
    ev['rows'] = [[ids[s] for s in subjects if rx.full_match(x, s)] for x in rex]
    ev['distincttexts'] = len(set(rex)) == len(rex)
    ev['compiles'] = all(rx.compiles(x) for x in rex)
    def anchored(x):
        if not (x.startswith('^') and x.endswith('$')):
            return False
        body = x[:-1]
        nbs = len(body) - len(body.rstrip('\\'))
        return nbs % 2 == 0          # the final $ is not an escaped literal
    ev['anchored'] = all(anchored(x) for x in rex)
    # capture groups change only the grouping
    kw2 = dict(kw)
    kw2['tag'] = not kw.get('tag', False)
    r2 = rx.run_extract(examples, **kw2)
    comparable = sizekw is None or kw.get('seed') is not None      # unseeded sampling is random by design
    if r2['raised'] == 'none' and comparable:
        ev['hastag'] = True
        ev['tagrows'] = [[ids[s] for s in subjects if rx.full_match(x, s)] for x in r2['rex']]
        r['tagged_rex'] = r2['rex']
    return ev, r


def run(chk):
    thorough = chk.tier == 'thorough'
    rnd = random.Random(chk.seed + 13)
    # the design models (fragment rendering is where validity of brackets / escapes is decided)
    preds = c03.frag_models(chk, 3 if thorough else 2)
    r1 = tlc.run('MC_RexLoop', 'MC_RexLoop.cfg', name='MC_RexLoop_repaired')
    chk.add_tlc(r1)
    if r1.violated:
        chk.machinery_error('the repaired loop design violates %s' % r1.violated)
    events, detail = [], {}
    n = 5000 if thorough else 900
    classes = rx.char_classes()
    import itertools
    frag_sets = [c for k in (1, 2, 3) for c in itertools.combinations(range(1, len(classes) + 1), k)]
    for tid in range(n):
        if tid % 3 == 0:
            S = rnd.choice(frag_sets)
            ex = c03.frag_examples(S, classes, rnd)[rnd.choice(['general', 'fine'])]
            kw = {'dialect': rnd.choice(rx.DIALECTS)}
            x = rnd.choice(rx.EXTRAS)
            if x:
                kw['extra_letters'] = x
            sizekw = None
        elif tid % 41 == 5:
            # long strings of one shape: many short alphanumeric fragments (the capture-group budget of 99 is reached)
            # (also beyond it, with strings of different lengths in one input and a few short ones next to them)
            npairs = rnd.choice([30, 40, 45, 48])
            def longstr(np_=None):
                return '-'.join(rnd.choice('abcdefgh') + rnd.choice('0123456789') for _ in range(np_ or npairs))
            if rnd.random() < 0.5:
                ex = [longstr() for _ in range(rnd.randint(2, 3))]
            else:
                ex = [longstr(np_) for np_ in rnd.sample([34, 48, 50, 52, 60, 70, 75], rnd.randint(2, 3))]
                ex += rnd.sample(['xyz', 'pq', 'a1-b2', '12'], rnd.randint(0, 2))
            kw = {'tag': True} if rnd.random() < 0.5 else {}
            kw['dialect'] = rnd.choice(rx.DIALECTS)
            sizekw = None
        elif tid % 41 in (9, 29):
            # sampling: a majority of plain strings and a few members in which the extra letters occur only next to
            # punctuation - the first sample may not contain any of them
            xl = rnd.choice(['_-', '_.', '.-', '_.-'])
            letters = 'abcdefghijklmnopqrstuvwx'
            plain = [c + rnd.choice([c, c.upper()]) for c in rnd.sample(letters, rnd.randint(16, 24))]
            puncts = rnd.sample('!#$%&*+=@~;:', rnd.randint(5, 8))
            rare = [xl[i % len(xl)] + pc for i, pc in enumerate(puncts)]
            ex = plain + rare
            rnd.shuffle(ex)
            kw = {'dialect': rnd.choice(rx.DIALECTS), 'extra_letters': xl, 'seed': rnd.randint(0, 19)}
            if rnd.random() < 0.3:
                kw['tag'] = True
            sizekw = {'do_all': rnd.randint(2, 3), 'do_all_exceptions': rnd.randint(3, 5)}
            from tdda.rexpy.rexpy import Size as Size_
            kw['size'] = Size_(**sizekw)
        elif tid % 41 == 11:
            # lower-case letters with unusual case mappings (upper-casing gives 'SS', 'FI', 'I', 'S', ...), in every example of a group
            pool_ = ['stra\u00dfe', 'ma\u00dfe', 'gro\u00df', 'fu\u00df', 'wei\u00df', '\ufb01x', '\ufb02y', '\ufb01n', '\u017fo', '\u0131o', '\u01f0a']
            ex = rnd.sample(pool_[:5], rnd.randint(2, 4)) if rnd.random() < 0.6 else rnd.sample(pool_[5:], rnd.randint(2, 4))
            if rnd.random() < 0.4:
                ex = ['%s %d' % (e_, rnd.randint(1, 99)) for e_ in ex]
            kw = {'dialect': rnd.choice(rx.DIALECTS)}
            if rnd.random() < 0.3:
                kw['tag'] = True
            sizekw = None
        elif tid % 41 == 13:
            # a constant backslash followed by constant text that begins with a letter which means something after a backslash
            suf = rnd.choice(['data', 'docs', 'd', 'dfs', 'w', 's1', 'b', 'n', 'D', 'W'])
            ex = ['%s\\%s' % (c_, suf) for c_ in rnd.sample('pqrxyz', rnd.randint(1, 3))]
            kw = {'dialect': rnd.choice(rx.DIALECTS)}
            if rnd.random() < 0.3:
                kw['tag'] = True
            sizekw = None
        elif tid % 41 == 15:
            # the same characters in the same order, only the lengths of the runs differ; a repeated character right before a change
            # of class (letter / digit / case)
            a_, b_ = rnd.sample('abcxyz', 2)
            tail = rnd.choice(['1', '22', 'Q', b_.upper()])
            ex = sorted({a_ * n_ + tail for n_ in rnd.sample([2, 3, 4, 5], rnd.randint(2, 3))})
            if rnd.random() < 0.4:
                ex = [b_ + e_ for e_ in ex]
            kw = {'dialect': rnd.choice(rx.DIALECTS)}
            if rnd.random() < 0.3:
                kw['tag'] = True
            sizekw = None
        elif tid % 41 == 17:
            # extra letters that every example contains, next to letters outside ASCII
            xl = rnd.choice(['.', '-', '.-', '_.'])
            words_ = ['\u00e9t\u00e9', '\u00e0b', '\u00f1and\u00fa', 'gr\u00fc\u00df', '\u4e2d\u6587', 'na\u00efve']
            ex = ['%s%s%s%d' % (w_, rnd.choice(xl), rnd.choice('xyz'), rnd.randint(1, 99)) for w_ in rnd.sample(words_, rnd.randint(2, 4))]
            kw = {'dialect': rnd.choice(rx.DIALECTS), 'extra_letters': xl}
            if rnd.random() < 0.3:
                kw['tag'] = True
            sizekw = None
        elif tid % 41 == 7:
            # two shapes that share a constant at the same place from the left; the shorter shape ends there
            sep = rnd.choice([':', '-', '/', '='])
            def pre():
                return '%02d' % rnd.randint(10, 99) if rnd.random() < 0.6 else rnd.choice('abcdefgh') * 2
            short = {pre() + sep for _ in range(3)}
            longer = {pre() + sep + rnd.choice(['ab', 'cd', 'xy', 'zz']) + rnd.choice(['', '', '-']) for _ in range(3)}
            ex = sorted(short) + sorted(longer)
            rnd.shuffle(ex)
            kw = {'tag': True} if rnd.random() < 0.3 else {}
            sizekw = None
        elif tid % 7 == 3:
            # shapes that occur equally often, with fewer patterns allowed than shapes: which ones survive the pruning
            # must not depend on whether capture groups were asked for
            gens = [lambda: ''.join(rnd.choice('abcdefgh') for _ in range(2)), lambda: 'A-%d' % rnd.randint(0, 9),
                    lambda: '%d' % rnd.randint(10, 99), lambda: ':' + rnd.choice('xyz'), lambda: rnd.choice('QRS') + rnd.choice('qrs') + '!']
            shapes = rnd.sample(gens, rnd.randint(2, 4))
            k = rnd.randint(1, 3)
            ex = []
            for g in shapes:
                vals = set()
                while len(vals) < k:
                    vals.add(g())
                ex += sorted(vals)
            rnd.shuffle(ex)
            kw = {'max_patterns': rnd.randint(1, len(shapes) - 1)}
            if rnd.random() < 0.5:
                kw['tag'] = True
            sizekw = None
        else:
            ex = rx.rich_examples(rnd)
            kw, sizekw = rx.rich_options(rnd)
            # C13's quantifier adds the pruning options
            if rnd.random() < 0.25:
                kw['max_patterns'] = rnd.randint(1, 3)
            if rnd.random() < 0.2:
                kw['min_strings_per_pattern'] = rnd.randint(1, 3)
        if rnd.random() < 0.3:
            d = {}
            for e in ex:
                if e is not None:
                    d[e] = d.get(e, 0) + rnd.randint(1, 3)
            if rnd.random() < 0.4:
                # a key with multiplicity zero is not an example
                d[rnd.choice(['zero-Count_77', 'ZZZ', '0.0.0', 'ünused'])] = 0
            given = d
        else:
            given = ex
        ev, r = result_event(tid, given, kw, sizekw, rnd)
        events.append(ev)
        detail[tid] = {'examples': given if not isinstance(given, dict) else given, 'options': {k: v for k, v in kw.items() if k != 'size'},
                       'size': sizekw, 'returned': r['rex'], 'tagged_variant': r.get('tagged_rex'), 'raised': r['raised']}
        chk.coverage['replayed_cases'] += 1
        chk.count_case(json.dumps([sorted(map(str, given)) if not isinstance(given, dict) else sorted(given.items()), sorted(detail[tid]['options'].items()), sizekw], default=str),
                       nontrivial=len(r['rex']) > 0)
    res, rejected = trace.validate('Trace_RexResult', 'Trace_RexResult.cfg', events, name='rex_results', workers=4)
    chk.add_tlc(res)
    chk.coverage['traces_validated_against_impl'] += len(events)
    for rej in rejected:
        e = events[rej['line'] - 1]
        d = detail[e['tid']]
        for clause in rej['bad']:
            sig = {'kind': 'rex-result', 'clause': clause}
            if clause in ('EachMatchesSomeExample', 'TagNeutral'):
                exs = d['examples'] if not isinstance(d['examples'], dict) else list(d['examples'])
                causes = set()
                for x in exs:
                    if x is not None:
                        causes |= rr.char_causes(x, d['options'].get('dialect', 'portable'), d['returned'])
                sig['cause'] = c03.primary(causes)
            if clause == 'NoError':
                sig['error'] = e['raised']
            if clause == 'TagNeutral' and d['size']:
                sig['sampling'] = True
            chk.violation(sig, dict(d, event={k: v for k, v in e.items() if k not in ('rows', 'tagrows')},
                                    rows=e['rows'], tagrows=e['tagrows'], how='tdda.rexpy.extract; match sets by re.fullmatch; '
                                                                              'judged by spec/Trace_RexResult.tla'))
    chk.sample({'event': events[0], 'case': detail[0]})
    chk.coverage['rule'] = ('fragment-targeted example lists (sets of <= 3 character classes x extra letters x dialect) and rich '
                            'random multisets (list / frequency dict) x all options incl. max_patterns and min_strings_per_pattern '
                            'x Size settings x seeds; each run and its tag-flipped twin recorded as one trace line; '
                            'non-trivial = at least one expression returned')
    chk.coverage['exhaustive'] = False
    chk.assume('validity and anchoring are facts about concrete text: measured with re.compile on the returned strings and '
               'asserted through the trace spec')
    chk.assume('tag neutrality is compared on runs without random sampling or with the same seed')


def replay(path):
    print(json.dumps(json.load(open(path)), indent=1, ensure_ascii=False)[:6000])
    return 0
