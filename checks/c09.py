"""C09 - .tdda files round-trip: same text, same verdicts, unknown keys ignored. (DESIGN 5/C09)

Model: spec/TddaFile.tla (load / dump on value classes; Fixpoint, UnknownNeutral, OrderFree).
Spec -> code: every field dictionary of <= 3 keys over the value classes is concretized (several concrete
values per class: unicode names, backslashes, quotes, 17-digit reals, huge ints, dates in every spelling)
and pushed through the real initialize_from_dict / to_json / file / loadpath cycle and verify_df.
Code -> spec: constraint sets discovered from rich frames and hand-written ones go through repeated
write/load cycles; every cycle is a trace line whose facts Trace_TddaFile requires.
"""
import datetime
import itertools
import json
import os
import random

import numpy as np
import pandas as pd

from harness import common, tlc, trace
from harness import constraints_lib as cl
from harness import verify_session as vs

FIELD_NAMES = ['f', 'naïve ☃', 'with "quote"', 'back\\slash', 'line sep', ' sp ', '1',
               'cafe\u0301 prix', 'A\u030angstro\u0308m', '\uff21\uff22 full width', '\ufeffid', 'zero\u200bwidth']      # (decomposed / compatibility forms: a name is its code points)

CONCRETE = {
    'int': [0, 7, -3, 2**53 + 1, 10**30],
    'real': [0.5, -2.25, 0.1, 1.0000000000000002, 1e-320, 1.7976931348623157e308],
    'string': ['x', 'é☃', 'a"b', 'c\\d', '2020-13-45'],
    'bool': [True, False],
    'null': [None],
    'list': [['^a$'], ['^\\d+$', '^"x\\\\y"$'], ['^é+$'], []],
    'date_d': ['2020-02-29', '1999/1/5'],
    'date_s0': ['2020-02-29 00:00:00', '2020-02-29T00:00:00'],
    'date_s': ['2020-02-29 12:34:56', '2021/3/4 1:02:03'],
    'date_f6': ['2020-02-29 12:34:56.000249', '2020-02-29 12:34:56.123456', '2020-02-29 12:34:56.003919',
                '2020-02-29 12:34:56.999999', '2020-02-29 12:34:56.000489'],
    't_date': ['date'], 't_other': ['int', 'real', 'string', 'bool'], 't_list': [['int', 'real'], ['date', 'string']],
    'any': [1, 'x', None, {'a': [1, 2]}, [1, 'two']],
}
SIGNS = ['positive', 'non-negative', 'zero', 'non-positive', 'negative', 'null']


def concretize(k, vclass, rnd):
    if k == 'sign' and vclass == 'string':
        return rnd.choice(SIGNS)
    if vclass == 'pd_num':
        return {'value': rnd.choice(CONCRETE['int'][:3] + CONCRETE['real'][:3]), 'precision': rnd.choice(['open', 'closed', 'fuzzy'])}
    if vclass == 'pd_date':
        return {'value': rnd.choice(CONCRETE['date_d'] + CONCRETE['date_s'] + CONCRETE['date_f6']),
                'precision': rnd.choice(['open', 'closed', 'fuzzy'])}
    if vclass == 'pd_null':
        return {'value': None, 'precision': rnd.choice(['open', 'closed', 'fuzzy'])}
    if k == 'max_nulls' and vclass == 'int':
        return rnd.choice([0, 1, 5])
    if k in ('min', 'max') and vclass == 'string':
        return rnd.choice(['x', 'é☃'])
    return rnd.choice(CONCRETE[vclass])


def strict_loads(text):
    def bad(c):
        raise ValueError('non-finite constant %s' % c)
    return json.loads(text, parse_constant=bad)


def text_facets(text):
    """(valid utf-8, RFC 8259 JSON, no trailing whitespace, non-finite constant present)"""
    try:
        text.encode('utf-8')
        utf8 = True
    except UnicodeError:
        utf8 = False
    nonfinite = False
    try:
        strict_loads(text)
        valid = True
    except ValueError as e:
        valid = False
        nonfinite = 'non-finite' in str(e)
    notrail = all(line == line.rstrip() for line in text.split('\n'))
    return utf8, valid, notrail, nonfinite


def meta_of(dc):
    """The creation metadata block, minus the file name that loading from a path records."""
    m = dict(dc.to_dict().get('creation_metadata') or {})
    m.pop('tddafile', None)
    return json.dumps(m, sort_keys=True, default=str)


def fields_text(dc):
    return json.dumps(dc.to_dict()['fields'], indent=4, ensure_ascii=False, default=str)


def data_for(fielddict, name, rnd):
    """A small frame whose column 'name' has values around the bounds in fielddict."""
    t = fielddict.get('type')
    t = t[0] if isinstance(t, list) and t else t

    def val(x):
        return x.get('value') if isinstance(x, dict) else x
    if t == 'date':
        vals = [pd.Timestamp('2020-02-29 12:34:56.000249'), pd.Timestamp('2020-02-29'), pd.Timestamp('1999-01-05'),
                pd.Timestamp('2020-02-29 12:34:56.123456'), pd.Timestamp('2021-03-04 01:02:03'), pd.NaT]
        return pd.DataFrame({name: pd.Series(pd.to_datetime(rnd.sample(vals, 3)))})
    if t == 'string':
        return pd.DataFrame({name: pd.Series(rnd.sample(['a', 'x', 'é☃', '12', None], 3), dtype=object)})
    if t == 'bool':
        return pd.DataFrame({name: [True, False, True]})
    nums = []
    for k in ('min', 'max'):
        v = val(fielddict.get(k))
        if isinstance(v, (int, float)) and not isinstance(v, bool) and abs(v) < 1e15:
            nums += [v, v - 1, v + 1]
    nums = nums or [-3, 0, 7]
    if t == 'real':
        return pd.DataFrame({name: [float(x) for x in rnd.sample(nums, min(3, len(nums)))]})
    return pd.DataFrame({name: [int(x) for x in rnd.sample(nums, min(3, len(nums)))]})


def verdicts(df, src):
    from tdda.constraints import verify_df
    with cl.quiet():
        v = verify_df(df.copy(), src, repair=False)
    return {f: {k: (None if x is None else bool(x)) for k, x in fv.items()} for f, fv in v.fields.items()}, v.passes, v.failures


def cycle_check(chk, d, root, tag, rnd, sigbase, witness, cycles=2, df=None, origin=None, expect=None):
    """d: constraints dictionary.  Performs load -> write -> load(path) -> write ... and returns trace events."""
    from tdda.constraints.base import DatasetConstraints
    events = []
    tid = witness['tid']

    def ev(name, **kw):
        e = {'tid': tid, 'ev': name, 'raised': 'none'}
        e.update(kw)
        events.append(e)
        return e
    ev('Init')
    try:
        with cl.quiet():
            dc = DatasetConstraints()
            d1 = json.loads(json.dumps(d))
            before = json.dumps(d1, sort_keys=True)
            dc.initialize_from_dict(d1)
            # the caller's dictionary is an input: using it again (load, verify) gives the same thing, and it is left as it was
            dcb = DatasetConstraints()
            dcb.initialize_from_dict(d1)
            reload_same = fields_text(dcb) == fields_text(dc)
            if df is not None and len(dc.fields):
                try:
                    va = verdicts(df, d1)
                    vb = verdicts(df, d1)
                    reload_same = reload_same and va == vb
                except Exception:
                    pass
            intact = json.dumps(d1, sort_keys=True) == before
        given_meta = dict(d.get('creation_metadata') or {})
        given_meta.pop('tddafile', None)
        e0 = ev('LoadDict', nfields=len(dc.fields), dictintact=bool(intact), reloadsame=bool(reload_same),
                samemeta=(not given_meta) or meta_of(dc) == json.dumps(given_meta, sort_keys=True, default=str))
        if not e0['samemeta']:
            e0['texts'] = [json.dumps(given_meta, sort_keys=True, default=str)[:400], meta_of(dc)[:400]]
    except Exception as ex:
        ev('LoadDict', nfields=0, dictintact=True, reloadsame=True, samemeta=True, raised='%s: %s' % (type(ex).__name__, str(ex)[:150]))
        return events
    prev_text = None
    prev_fields = None
    base_verdicts = None
    if df is not None and len(dc.fields):
        try:
            base_verdicts = verdicts(df, json.loads(json.dumps(d)))
        except Exception as ex:
            base_verdicts = ('raised', type(ex).__name__)
    if expect is not None:
        base_verdicts = expect          # (what the documented meaning of the constraints says about this data)
    if origin is not None:
        # the set as it was made in memory (by discovery): ITS text is the text written, ITS verdicts are the verdicts
        try:
            prev_fields = fields_text(origin)
        except Exception:
            prev_fields = None
        if df is not None and len(dc.fields) and base_verdicts is not None and base_verdicts[0] != 'raised':
            try:
                from tdda.constraints.pd.constraints import PandasConstraintVerifier, PandasVerification
                with cl.quiet():
                    v = PandasConstraintVerifier(df.copy()).verify(origin, VerificationClass=PandasVerification)
                base_verdicts = ({f: {k: (None if x is None else bool(x)) for k, x in fv.items()} for f, fv in v.fields.items()},
                                 v.passes, v.failures)
            except Exception:
                pass
    for c in range(cycles):
        try:
            text = dc.to_json()
        except Exception as ex:
            ev('Write', cycle=c, raised='%s: %s' % (type(ex).__name__, str(ex)[:150]), utf8=True, validjson=True,
               notrail=True, nonfinite=False, sametext=True)
            return events
        utf8, valid, notrail, nonfinite = text_facets(text)
        ftext = fields_text(dc)
        same = prev_fields is None or ftext == prev_fields
        ev('Write', cycle=c, utf8=utf8, validjson=valid, notrail=notrail, nonfinite=nonfinite, sametext=same)
        if not same:
            events[-1]['texts'] = [prev_fields[:400], ftext[:400]]
            try:
                fa, fb = json.loads(prev_fields), json.loads(ftext)
                events[-1]['differing_fields'] = sorted(f for f in set(fa) | set(fb) if fa.get(f) != fb.get(f))
                events[-1]['against_origin'] = origin is not None and c == 0
            except Exception:
                pass
        prev_text, prev_fields = text, ftext
        # the same few file names are written again and again, by every case and every cycle: what a path held earlier
        # in this process must not matter
        p = os.path.join(root, 'constraints_%d.tdda' % (tid % 3))
        with open(p, 'w', encoding='utf-8') as f:
            f.write(text)
        try:
            with cl.quiet():
                dc2 = DatasetConstraints(loadpath=p)
            sameobj = fields_text(dc2) == ftext
            e = ev('LoadPath', cycle=c, sameobj=sameobj, sameverdicts=True, samemeta=meta_of(dc2) == meta_of(dc))
            if not e['samemeta']:
                e['texts'] = [meta_of(dc)[:400], meta_of(dc2)[:400]]
            if not sameobj:
                e['texts'] = [ftext[:400], fields_text(dc2)[:400]]
        except Exception as ex:
            ev('LoadPath', cycle=c, sameobj=False, sameverdicts=True, samemeta=True, raised='%s: %s' % (type(ex).__name__, str(ex)[:150]))
            return events
        if base_verdicts is not None:
            try:
                v_path = verdicts(df, p)
                v_dict = verdicts(df, strict_or_plain(text))
                # "re-serialised from a loaded object": the dictionary exactly as to_dict() hands it out (an OrderedDict)
                v_obj = verdicts(df, dc2.to_dict())
            except Exception as ex:
                v_path = v_dict = v_obj = ('raised', type(ex).__name__)
            if v_path != base_verdicts or v_dict != base_verdicts or v_obj != base_verdicts:
                e['sameverdicts'] = False
                e['verdicts'] = json.loads(json.dumps([base_verdicts, v_path, v_dict, v_obj], default=str))
                try:
                    fa = base_verdicts[0]
                    e['differing_fields'] = sorted(f for f in fa if any(isinstance(o, tuple) and isinstance(o[0], dict) and o[0].get(f) != fa[f]
                                                                      for o in (v_path, v_dict, v_obj)))
                    e['against_origin'] = origin is not None
                except Exception:
                    pass
        dc = dc2
    return events


def strict_or_plain(text):
    return json.loads(text)


def run(chk):
    thorough = chk.tier == 'thorough'
    rnd = random.Random(chk.seed)
    root = common.subdir('c09')
    # 1. design model -------------------------------------------------------------------------------
    r1 = tlc.run('MC_TddaFile', 'MC_TddaFile.cfg', name='MC_TddaFile')
    chk.add_tlc(r1)
    if r1.violated:
        chk.machinery_error('MC_TddaFile violates %s' % r1.violated)
    rows = sorted(r1.rows, key=lambda r: json.dumps(r, sort_keys=True))
    if len(rows) < 10000:
        chk.machinery_error('vacuity: only %d field dictionaries' % len(rows))
    if not thorough:
        rnd.shuffle(rows)
        rows = rows[:7000]
    events = []
    meta = {}
    tid = 0
    # 2. spec -> code: every abstract field dictionary, concretized ------------------------------------
    for r in rows:
        fd = r['fd']
        if not fd:
            continue
        # well-formed sets only: a date field takes date-valued (or null) bounds, other fields take
        # numeric ones; ill-typed combinations are outside "expressible in the documented format"
        tval = next((e['v'] for e in fd if e['k'] == 'type'), None)
        bounds = [e['v'] for e in fd if e['k'] in ('min', 'max')]
        datey = {'date_d', 'date_s0', 'date_s', 'date_f6', 'pd_date'}
        if tval == 't_date' and any(b in ('int', 'real', 'string', 'pd_num') for b in bounds):
            continue
        if tval != 't_date' and any(b in datey or b == 'string' for b in bounds):
            continue
        name = rnd.choice(FIELD_NAMES)
        fielddict = {}
        for e in fd:
            key = e['k'] if e['k'] not in ('zzz',) else rnd.choice(['zzz', 'custom_kind', 'min_len', 'values', 'nonnull', 'nodups', 'ok', 'minimum'])
            if e['k'] == '#c':
                key = rnd.choice(['#c', '# a comment', '#min'])
            fielddict[key] = concretize(e['k'], e['v'], rnd)
        d = {'fields': {name: fielddict}}
        known = {k: v for k, v in fielddict.items() if k in ('type', 'min', 'max', 'sign', 'max_nulls', 'rex')}
        df = data_for(fielddict, name, rnd) if known else None
        w = {'tid': tid, 'dict': d, 'abstract': fd}
        evs = cycle_check(chk, d, root, 't%d' % tid, rnd, None, w, cycles=2, df=df)
        # unknown / # keys neutral; key order irrelevant: same verdicts as the stripped / permuted dictionary
        if df is not None and len(evs) > 1 and evs[1]['raised'] == 'none':
            try:
                base = verdicts(df, json.loads(json.dumps(d)))
                stripped = {'fields': {name: known}}
                vs_ = verdicts(df, json.loads(json.dumps(stripped)))
                neutral = all(base[0].get(name, {}).get(k) == vs_[0].get(name, {}).get(k) for k in known)
                items = list(fielddict.items())
                rnd.shuffle(items)
                perm = {'fields': {name: dict(items)}}
                vp = verdicts(df, json.loads(json.dumps(perm)))
                orderfree = vp[0] == base[0] or all(vp[0].get(name, {}).get(k) == base[0].get(name, {}).get(k) for k in known)
                evs.append({'tid': tid, 'ev': 'Neutral', 'raised': 'none', 'neutral': neutral, 'orderfree': orderfree})
                if not (neutral and orderfree):
                    evs[-1]['detail'] = json.loads(json.dumps([base, vs_, vp], default=str))
            except Exception:
                pass        # verification itself raised on this set: C02's business, nothing to compare here
        events += evs
        meta[tid] = w
        chk.coverage['replayed_cases'] += 1
        chk.count_case(json.dumps(fd, sort_keys=True), nontrivial=len(fd) > 1)
        tid += 1
    # 2b. hand-written bounds whose exact text needs 16-17 significant digits, verified on data that sits exactly on them:
    #     the verdicts by dictionary, by path and by re-serialised object must be the same
    import pandas as _pd
    AWK = [0.1 + 0.2, -0.7999999999999999, 1 / 3, 1e-9 * 3, 123456.78900000002, 0.1 + 0.7]
    for _ in range(240 if thorough else 40):
        b = rnd.choice(AWK)
        kind = rnd.choice(['min', 'max'])
        prec = rnd.choice([None, 'closed', 'open', 'fuzzy'])
        other = b - 1.0 if kind == 'max' else b + 1.0
        df_ = _pd.DataFrame({'x': [b, other, other]})
        val = b if prec is None else {'value': b, 'precision': prec}
        d_ = {'fields': {'x': {'type': 'real', kind: val}}}
        w = {'tid': tid, 'dict': d_, 'handwritten_awkward_float': True}
        events += cycle_check(chk, d_, root, 'a%d' % tid, rnd, None, w, cycles=2, df=df_)
        meta[tid] = w
        chk.coverage['replayed_cases'] += 1
        tid += 1
    # 2c. date bounds far from today (the sentinels people write: year 1, 999, 3000, 9999), data well inside them: the bounds are
    #     satisfied, by every route
    for _ in range(120 if thorough else 24):
        lo = rnd.choice(['0001-01-01', '0999-12-31', '0001-01-01 00:00:00', '1000-01-01'])
        hi = rnd.choice(['9999-12-31', '9999-12-31 23:59:59', '3000-01-01', '2999-12-31 23:59:59.999999'])
        prec = rnd.choice([None, 'closed', 'open', 'fuzzy'])
        fd_ = {'type': 'date', 'min': lo if prec is None else {'value': lo, 'precision': prec}, 'max': hi if prec is None else {'value': hi, 'precision': prec}}
        df_ = _pd.DataFrame({'when': _pd.to_datetime(['2020-02-29 12:34:56', '1999-01-05 00:00:00', '2021-03-04 01:02:03'])})
        d_ = {'fields': {'when': fd_}}
        w = {'tid': tid, 'dict': d_, 'sentinel_date_bounds': True}
        events += cycle_check(chk, d_, root, 's%d' % tid, rnd, None, w, cycles=2, df=df_,
                              expect=({'when': {'type': True, 'min': True, 'max': True}}, 3, 0))
        meta[tid] = w
        chk.coverage['replayed_cases'] += 1
        tid += 1
    # 3. code -> spec: discovered constraint sets from rich frames, many cycles ---------------------------
    from tdda.constraints import discover_df
    nrich = 1500 if thorough else 250
    for _ in range(nrich):
        df, kinds = vs.rich_frame(rnd)
        try:
            with cl.quiet():
                cs = discover_df(df.copy(), inc_rex=rnd.random() < 0.5)
        except Exception:
            continue
        if cs is None:
            continue
        try:
            d = json.loads(cs.to_json())      # what a user would have on disk (python json: accepts Infinity)
        except Exception as ex:
            text = ''
            try:
                text = cs.to_json()
            except Exception:
                pass
            chk.violation({'kind': 'tdda-roundtrip', 'clause': 'ValidJson', 'error': type(ex).__name__, 'discovered': True},
                          {'column_kinds': kinds, 'error': '%s: %s' % (type(ex).__name__, str(ex)[:200]), 'text_around': text[:1500],
                           'how': 'discover_df(rich frame).to_json() is not parseable (python json, which even accepts Infinity / NaN)'})
            continue
        w = {'tid': tid, 'kinds': kinds, 'dict': json.loads(json.dumps(d, default=str)), 'discovered': True}
        events += cycle_check(chk, d, root, 'r%d' % tid, rnd, None, w, cycles=rnd.randint(2, 4), df=df, origin=cs)
        meta[tid] = w
        tid += 1
    # judge -----------------------------------------------------------------------------------------
    clean = [{k: v for k, v in e.items() if k not in ('texts', 'verdicts', 'detail', 'differing_fields', 'against_origin')} for e in events]
    res, rejected = trace.validate('Trace_TddaFile', 'Trace_TddaFile.cfg', clean, name='tdda_cycles', workers=4)
    if res.error and 'not fully consumed' in res.error:
        # a line that raised is judged but not stepped over: its successor states do not exist
        stopped, unconsumed = set(), 0
        for e in clean:
            if e['tid'] in stopped:
                unconsumed += 1
            elif e.get('raised', 'none') != 'none':
                stopped.add(e['tid'])
                unconsumed += 1
        done = [r for r in res.rows if 'consumed' in r]
        if done and done[-1]['consumed'] == len(clean) - unconsumed:
            res.ok, res.error = True, None
    chk.add_tlc(res)
    chk.coverage['traces_validated_against_impl'] += tid
    chk.coverage['trace_events'] = len(events)
    for rej in rejected:
        e = events[rej['line'] - 1]
        w = meta[e['tid']]
        for clause in rej['bad']:
            sig = {'kind': 'tdda-roundtrip', 'clause': clause}
            if e['raised'] != 'none':
                sig['error'] = e['raised'].split(':')[0]
            if clause == 'ValidJson' and e.get('nonfinite'):
                sig['nonfinite'] = True
            if e.get('against_origin') and clause in ('Fixpoint', 'SameVerdicts') and w.get('kinds'):
                # the written set is the one discovery made in memory; which kinds of column differ after loading
                sig['written_set'] = 'as discovered (in memory)'
                sig['differing_kinds'] = ','.join(sorted(set(w['kinds'].get(f, '?') for f in e.get('differing_fields', [])))) or '?'
            if w.get('abstract'):
                sig['classes'] = ','.join(sorted('%s=%s' % (x['k'], x['v']) for x in w['abstract'] if x['k'] in ('min', 'max', 'type')))
            chk.violation(sig, {'event': e, 'constraints': w.get('dict'), 'column_kinds': w.get('kinds'),
                                'how': 'initialize_from_dict -> to_json -> file -> DatasetConstraints(loadpath) cycles, '
                                       'judged by spec/Trace_TddaFile.tla'})
    if events:
        chk.sample({'cycle_events': clean[:4], 'constraints': meta[0]['dict']})
    chk.coverage['rule'] = ('field dictionaries of <= 3 keys over {type, min, max, sign, max_nulls, rex, unknown kind, #comment} x '
                            'value classes (TLC table), each concretized with unicode names / quotes / backslashes / 17-digit '
                            'reals / dates in every spelling; plus constraint sets discovered from rich frames; 2..4 '
                            'write/load cycles each; non-trivial = more than one key')
    chk.coverage['exhaustive'] = thorough
    chk.assume("text identity is demanded on the 'fields' section: loading from a path adds creation_metadata.tddafile")
    chk.assume('UTF-8 / RFC 8259 validity and trailing whitespace are computed on the real text by the harness and '
               'asserted through the trace spec (the model has no strings)')


def replay(path):
    print(json.dumps(json.load(open(path)), indent=1)[:6000])
    return 0
