"""C04 - text comparison passes exactly when texts agree modulo declared exclusions. (DESIGN 5/C04)"""
import json
import multiprocessing as mp
import os
import random

from harness import common, tlc, trace
from harness import text_lib as tl


def model_rows(chk, maxlines, pool, name):
    cfg = ('CONSTANTS\n  Defects = {}\n  MaxLines = %d\n  EmitRows = TRUE\n  PoolName = "%s"\nINIT Init\nNEXT Next\n'
           'INVARIANT ImplIsSpec\nINVARIANT UnexcusedIsSpec\nINVARIANT IdenticalAlwaysPasses\nINVARIANT UnexcusedFails\n'
           'INVARIANT EmitCase\nCHECK_DEADLOCK FALSE\n' % (maxlines, pool))
    res = tlc.run('MC_TextCompare', cfg_text=cfg, name=name, timeout=2400)
    chk.add_tlc(res)
    if res.violated:
        chk.machinery_error('%s violates %s' % (name, res.violated))
    return sorted(res.rows, key=lambda r: json.dumps([r['A'], r['E']]))


def run(chk):
    thorough = chk.tier == 'thorough'
    rnd = random.Random(chk.seed)
    rows = model_rows(chk, 2, 'p12', 'MC_TextCompare_p12')
    rows += model_rows(chk, 3, 'p3', 'MC_TextCompare_p3x3')
    if thorough:
        rows += model_rows(chk, 3, 'p7', 'MC_TextCompare_p7x3')
        r3 = tlc.run('MC_TextCompare', cfg_text=(
            'CONSTANTS\n  Defects = {"GreedyPatternSplit"}\n  MaxLines = 1\n  EmitRows = FALSE\n  PoolName = "p12"\n'
            'INIT Init\nNEXT Next\nINVARIANT ImplIsSpec\nCHECK_DEADLOCK FALSE\n'), name='MC_TextCompare_greedy')
        chk.add_tlc(r3)
        chk.coverage['greedy_model_violates_ImplIsSpec'] = 'ImplIsSpec' in r3.violated
        if 'ImplIsSpec' not in r3.violated:
            chk.machinery_error('vacuity: the greedy-pattern model should violate ImplIsSpec')
    if len(rows) < 20000:
        chk.machinery_error('vacuity: only %d text pairs' % len(rows))
    chk.coverage['text_pairs'] = len(rows)
    # spec -> code: check_strings on every pair x every option combination -------------------------
    packed = [(r['A'], r['E'], r['spec'], r['impl'], r['dem']) for r in rows]
    variants = [0, 1, 2] if thorough else [chk.seed % 3]
    tasks = []
    for v in variants:
        for i in range(0, len(packed), 400):
            # quick tier: every pair, a rotating third of the 256 option combinations
            optsel = list(range(tl.NOPTS)) if thorough else [k for k in range(tl.NOPTS) if (k + i // 400) % 3 == 0]
            tasks.append((packed[i:i + 400], v, optsel))
    with mp.Pool(16, initializer=tl.init_worker, initargs=(common.REPO,)) as pool:
        results = pool.map(tl.replay_chunk, tasks)
    total = 0
    for n, mism, nm, drift, nd in results:
        total += n
        for m in mism:
            chk.violation(signature(m), dict(m, how='FilesComparison.check_strings(actual_lines, expected_lines, **options)'))
        chk.coverage['drift'] += max(0, nd - len(drift))
        for d in drift:
            chk.drift_case(d)
    chk.coverage['replayed_cases'] += total
    chk.coverage['evaluations'] += total
    for r in rows[:2000]:
        chk.count_case(json.dumps([r['A'], r['E']]), nontrivial=bool(r['A'] or r['E']))
    chk._distinct.update(hash(json.dumps([r['A'], r['E']])) for r in rows if r['A'] or r['E'])
    # spec -> code: the assertion entry points on real files (sample) ------------------------------------
    wd = common.subdir('c04_files')
    ref = tl.make_ref(os.path.join(wd, 'tmp'))
    os.makedirs(os.path.join(wd, 'tmp'), exist_ok=True)
    nsample = 6000 if thorough else 1200
    cand = [r for r in rows if not (r['A'] and r['A'][-1] == []) and not (r['E'] and r['E'][-1] == [])]
    index = {json.dumps([r['A'], r['E']]): r for r in rows}

    def b_to_a(text):
        return [['a' if t == 'b' else t for t in l] for l in text]
    # every option decides at every entry point: pairs of option sets that differ in ONE option and whose verdicts differ
    nsens = 0
    differing = [r for r in cand if r['A'] != r['E'] and 0 < sum(r['spec']) < tl.NOPTS]
    for i in range(3000 if thorough else 600):
        r = rnd.choice(differing)
        pairs = []
        for k in rnd.sample(range(tl.NOPTS), 64):
            for k2 in one_option_changed(k):
                if r['dem'][k] and r['dem'][k2] and r['spec'][k] != r['spec'][k2]:
                    pairs.append((k, k2))
        if not pairs:
            continue
        v = rnd.randrange(3)
        entry = ['string', 'file', 'files'][i % 3]
        for k in rnd.choice(pairs):
            o = tl.opt_of(k)
            got, msg = tl.call_entry(ref, entry, tl.lines(r['A'], v), tl.lines(r['E'], v), tl.kwargs_of(o, v), wd, True, True, tag='s%d' % (i % 50))
            nsens += 1
            want = 'pass' if r['spec'][k] else 'fail'
            if got != want:
                m = {'A': r['A'], 'E': r['E'], 'opts': o, 'observed': got, 'expected': want, 'entry': entry,
                     'final_newline': [True, True], 'preprocess': False, 'variant': v, 'message': msg[:300], 'one_option_pair': True}
                chk.violation(signature(m), dict(m, how='ReferenceTest.assert%s on real files; one of two option sets that differ in one '
                                                         'option and in their verdict' % entry))
    chk.coverage['one_option_decides_cases'] = nsens
    # preprocess decides: the function maps one letter to the other, the verdict is that of the mapped pair (another row)
    prepairs = []
    for r in rnd.sample(cand, min(len(cand), 6000)):
        if any('b' in l for l in r['A'] + r['E']):
            r2 = index.get(json.dumps([b_to_a(r['A']), b_to_a(r['E'])]))
            if r2 is not None:
                prepairs.append((r, r2))
    npre = 0
    for i in range(2000 if thorough else 400):
        r, r2 = rnd.choice(prepairs)
        ks = [k for k in range(tl.NOPTS) if r['dem'][k] and r2['dem'][k] and r['spec'][k] != r2['spec'][k]]
        if not ks:
            continue
        k = rnd.choice(ks)
        v = rnd.randrange(3)
        o = tl.opt_of(k)
        kw = tl.kwargs_of(o, v)
        kw['preprocess'] = (lambda m_: lambda ls: [x.replace(m_['b'], m_['a']) for x in ls])(tl.TOKMAPS[v])
        entry = ['string', 'file', 'files'][i % 3]
        got, msg = tl.call_entry(ref, entry, tl.lines(r['A'], v), tl.lines(r['E'], v), kw, wd, True, True, tag='q%d' % (i % 50))
        npre += 1
        want = 'pass' if r2['spec'][k] else 'fail'
        if got != want:
            m = {'A': r['A'], 'E': r['E'], 'opts': o, 'observed': got, 'expected': want, 'entry': entry,
                 'final_newline': [True, True], 'preprocess': True, 'variant': v, 'message': msg[:300]}
            chk.violation(signature(m), dict(m, how='ReferenceTest.assert%s on real files with preprocess = "replace one letter by the '
                                                     'other"; expected verdict = that of the replaced pair' % entry))
    chk.coverage['preprocess_decides_cases'] = npre
    # a preprocess that is not idempotent (drops the first line, as one would drop a header): applied once, to both sides
    ndrop = 0
    heads = [r for r in cand if len(r['A']) >= 2 and len(r['E']) >= 2]
    for i in range(1500 if thorough else 300):
        r = rnd.choice(heads)
        r2 = index.get(json.dumps([r['A'][1:], r['E'][1:]]))
        r3 = index.get(json.dumps([r['A'][2:], r['E'][2:]]))
        if r2 is None or r3 is None:
            continue
        ks = [k for k in range(tl.NOPTS) if r2['dem'][k] and r3['dem'][k] and r2['spec'][k] != r3['spec'][k]]
        if not ks:
            continue
        k = rnd.choice(ks)
        v = rnd.randrange(3)
        o = tl.opt_of(k)
        kw = tl.kwargs_of(o, v)
        kw['preprocess'] = lambda ls: ls[1:]
        entry = ['string', 'file', 'files'][i % 3]
        got, msg = tl.call_entry(ref, entry, tl.lines(r['A'], v), tl.lines(r['E'], v), kw, wd, True, True, tag='h%d' % (i % 50))
        ndrop += 1
        want = 'pass' if r2['spec'][k] else 'fail'
        if got != want:
            m = {'A': r['A'], 'E': r['E'], 'opts': o, 'observed': got, 'expected': want, 'entry': entry,
                 'final_newline': [True, True], 'preprocess': True, 'variant': v, 'message': msg[:300]}
            chk.violation(signature(m), dict(m, how='ReferenceTest.assert%s on real files with preprocess = "drop the first line"; expected '
                                                     'verdict = that of the pair without its first lines' % entry))
    chk.coverage['preprocess_drop_header_cases'] = ndrop
    chk.coverage['replayed_cases'] += ndrop
    chk.coverage['replayed_cases'] += npre
    chk.coverage['replayed_cases'] += nsens
    for i in range(nsample):
        r = rnd.choice(cand)
        k = rnd.randrange(tl.NOPTS)
        if not r['dem'][k]:
            continue
        v = rnd.randrange(3)
        o = tl.opt_of(k)
        kw = tl.kwargs_of(o, v)
        # preprocess: a function that maps one letter to the other; the verdict is that of the mapped pair (another row)
        pre = rnd.random() < 0.3
        want = 'pass' if r['spec'][k] else 'fail'
        if pre:
            r2 = index.get(json.dumps([b_to_a(r['A']), b_to_a(r['E'])]))
            if r2 is None or not r2['dem'][k]:
                continue
            if r2['spec'][k] == r['spec'][k] and rnd.random() < 0.7:
                continue        # (mostly pairs on which the preprocessing decides the verdict)
            want = 'pass' if r2['spec'][k] else 'fail'
            kw['preprocess'] = (lambda m_: lambda ls: [x.replace(m_['b'], m_['a']) for x in ls])(tl.TOKMAPS[v])
            chk.coverage['preprocess_cases'] = chk.coverage.get('preprocess_cases', 0) + 1
        entry = rnd.choice(['string', 'file', 'files'])
        nl_a, nl_e = rnd.random() < 0.7, rnd.random() < 0.7
        got, msg = tl.call_entry(ref, entry, tl.lines(r['A'], v), tl.lines(r['E'], v), kw, wd, nl_a, nl_e, tag=str(i % 50))
        chk.coverage['replayed_cases'] += 1
        if got != want:
            m = {'A': r['A'], 'E': r['E'], 'opts': o, 'observed': got, 'expected': want, 'entry': entry,
                 'final_newline': [nl_a, nl_e], 'preprocess': pre, 'variant': v, 'message': msg[:300]}
            chk.violation(signature(m), dict(m, how='ReferenceTest.assert%s on real files' % entry))
    # identical content passes under every option combination, at every entry point (incl. blank and whitespace-only
    # last lines, CR LF line ends, no final newline, other characters str.splitlines treats as line ends)
    texts = {}
    for r in rows:
        texts[json.dumps(r['A'])] = r['A']
    tlist = [texts[k] for k in sorted(texts)]
    extra = [['a\x0cb', 'c'], ['x\u2028y'], ['p\x85q', ''], ['v\x0bw'], ['\x1c', 'z']]
    nid = 0
    for i, A in enumerate(tlist if thorough else rnd.sample(tlist, min(len(tlist), 150))):
        for entry in ('string', 'file', 'files'):
            v = rnd.randrange(3)
            k = rnd.randrange(tl.NOPTS)
            o = tl.opt_of(k)
            for eol, final in (('\n', True), ('\n', False), ('\r\n', True)):
                got, msg = tl.identical_entry(ref, entry, tl.lines(A, v), tl.kwargs_of(o, v), wd, eol, final, tag=str(nid % 50))
                nid += 1
                chk.coverage['replayed_cases'] += 1
                if got != 'pass':
                    m = {'A': A, 'E': A, 'opts': o, 'observed': got, 'expected': 'pass', 'entry': entry, 'identical': True,
                         'line_end': repr(eol), 'final_line_end': final, 'variant': v, 'message': msg[:300]}
                    sig = signature(m)
                    sig['clause'] = 'IdenticalContentPasses' if got == 'fail' else 'NoError'
                    chk.violation(sig, dict(m, how='ReferenceTest.assert%s with the same bytes on both sides' % entry))
    for ls in extra:
        for entry in ('string', 'file', 'files'):
            for k in (0, 3, rnd.randrange(tl.NOPTS)):
                o = tl.opt_of(k)
                got, msg = tl.identical_entry(ref, entry, ls, tl.kwargs_of(o, 0), wd, '\n', True, tag='x%d' % (nid % 50))
                nid += 1
                chk.coverage['replayed_cases'] += 1
                if got != 'pass':
                    m = {'A': ls, 'E': ls, 'opts': o, 'observed': got, 'expected': 'pass', 'entry': entry, 'identical': True,
                         'message': msg[:300]}
                    sig = signature(m)
                    sig['clause'] = 'IdenticalContentPasses' if got == 'fail' else 'NoError'
                    chk.violation(sig, dict(m, how='ReferenceTest.assert%s with the same bytes on both sides' % entry))
    chk.coverage['identical_content_entry_cases'] = nid
    r = rows[len(rows) // 2]
    chk.sample({'actual': r['A'], 'reference': r['E'], 'option_order': 'n = ls + 2 rs + 4 isub + 8 rem + 16 patlist + 64 mpc',
                'spec_bits': r['spec'], 'demanded_bits': r['dem']})
    chk.coverage['rule'] = ('every pair of texts of <= 2 lines over a 12-line pool (and <= 3 lines over a 7-line pool in the '
                            'thorough tier) x all 256 option combinations (4 pattern lists, mpc 0..3; quick tier: a rotating third per pair) on check_strings; a sample through the string / '
                            'file / list-of-files assertions with final-newline and preprocess variants; non-trivial = not both empty')
    chk.coverage['exhaustive'] = True
    chk.assume('token alphabet: two letters, two digits, blank, remove marker, ignore marker; ignore patterns \\d+ and [ab]\\d+ in both orders')
    chk.assume('trailing empty lines, and permutation / pattern options on blank-padded lines under stripping, are compared '
               'with the transcription only (TextCompare.Demanded)')


def one_option_changed(k):
    """Option-set numbers that differ from k in exactly one option (text_lib.opt_of)."""
    out = [k ^ 1, k ^ 2, k ^ 4, k ^ 8]
    pats, mpc = (k // 16) % 4, k // 64
    base = k - 16 * pats - 64 * mpc
    out += [base + 16 * p + 64 * mpc for p in range(4) if p != pats]
    out += [base + 16 * pats + 64 * c for c in range(4) if c != mpc]
    return out


def signature(m):
    o = m['opts']
    sig = {'kind': 'text-compare', 'clause': 'PassIffSpec' if isinstance(m['observed'], (int, str)) and not str(m['observed']).startswith('raised') and m['observed'] != 'error' else 'NoError',
           'expected': m['expected'], 'opts': ''.join(k for k in ('ls', 'rs', 'isub', 'rem') if o[k]) + (',pats%s' % ''.join(map(str, o['pats'])) if o['pats'] else '') + (',mpc' if o['mpc'] else '')}
    if 'entry' in m:
        sig['entry'] = m['entry']
    return sig


def replay(path):
    print(json.dumps(json.load(open(path)), indent=1)[:6000])
    return 0
