"""C07 - discovery reports exact statistics of the data. (DESIGN 5/C07)"""
import json
import random

import pandas as pd

from harness import common, tlc
from harness import constraints_run as run_
from harness import constraints_lib as cl

CLAUSES = {'DiscoverIsSpec'}


def category_sweep(chk):
    """0..25 distinct categories (threshold 20 comes from the property), DataFrame side."""
    from tdda.constraints import discover_df
    n = 0
    for ncat in range(0, 26):
        for repeat in (1, 2):
            for nnull in (0, 1, 3):
                vals = ['c%02d' % i for i in range(ncat)] * repeat + [None] * nnull
                if not vals:
                    continue
                for dtype in ('object', 'category'):
                    if dtype == 'category' and ncat == 0:
                        continue
                    s = pd.Series(vals, dtype=object)
                    if dtype == 'category':
                        s = s.astype('category')
                    with cl.quiet():
                        cs = discover_df(pd.DataFrame({'f': s}))
                    fd = cs.to_dict()['fields']['f'] if cs is not None else {}
                    n += 1
                    chk.coverage['replayed_cases'] += 1
                    chk.count_case(('cat', ncat, repeat, nnull, dtype))
                    want_av = sorted('c%02d' % i for i in range(ncat)) if 0 < ncat <= 20 else None
                    got_av = sorted(fd['allowed_values']) if 'allowed_values' in fd else None
                    want_nd = ncat > 1 and repeat == 1
                    got_nd = bool(fd.get('no_duplicates', False))
                    want_mn = nnull if nnull <= 1 else None
                    got_mn = fd.get('max_nulls')
                    bad = []
                    if got_av != want_av:
                        bad.append('allowed')
                    if got_nd != want_nd:
                        bad.append('no_duplicates')
                    if got_mn != want_mn:
                        bad.append('max_nulls')
                    if ncat > 0 and (fd.get('min_length'), fd.get('max_length')) != (3, 3):
                        bad.append('length')
                    for b in bad:
                        chk.violation({'kind': 'discovery', 'clause': 'DiscoverIsSpec', 'ckind': b,
                                       'coltype': 'string', 'variant': dtype},
                                      {'categories': ncat, 'repeat': repeat, 'nulls': nnull, 'dtype': dtype,
                                       'discovered': fd, 'how': 'discover_df on a column with that many distinct strings'})
    return n


def rich_extremes(chk, rnd, n):
    """Rich frames (sub-second timestamps, extreme integers, specials): the discovered bounds are values of the data."""
    from tdda.constraints import discover_df
    from harness import verify_session as vs
    cnt = 0
    for _ in range(n):
        df, kinds = vs.rich_frame(rnd)
        try:
            with cl.quiet():
                cs = discover_df(df.copy(), inc_rex=False)
        except Exception:
            continue           # C01 owns "never raises"
        if cs is None:
            continue
        fields = json.loads(cs.to_json())['fields']
        for name, kind in kinds.items():
            fd = fields.get(name, {})
            col = df[name].dropna()
            if len(col) == 0:
                continue
            numeric = kind in ('int64', 'uint8', 'Int64', 'int_extreme', 'float64', 'float32', 'float_special', 'Float64')
            for key, agg in (('min', 'min'), ('max', 'max')):
                if key not in fd:
                    if numeric:
                        # a numeric column with a non-null value has a smallest and a largest one (infinities included)
                        cnt += 1
                        chk.violation({'kind': 'discovery', 'clause': 'DiscoverIsSpec', 'ckind': key, 'coltype': kind, 'variant': 'rich', 'missing': True},
                                      {'column_kind': kind, 'field': name, 'discovered': fd, 'values': repr(col.tolist()[:12]),
                                       'how': 'discover_df(rich frame).to_json(): no %s although the column has non-null values' % key})
                    continue
                got = fd[key]['value'] if isinstance(fd[key], dict) else fd[key]
                try:
                    if kind.startswith('dt_') and kind != 'dt_tz':
                        want = getattr(col, agg)()
                        ok = pd.Timestamp(got) == pd.Timestamp(want)
                    elif kind in ('int64', 'uint8', 'Int64', 'int_extreme'):
                        want = int(getattr(col, agg)())
                        ok = int(got) == want
                    elif numeric:
                        want = float(getattr(col.astype('float64'), agg)())
                        ok = float(got) == want
                    else:
                        continue
                except Exception:
                    continue
                cnt += 1
                chk.coverage['replayed_cases'] += 1
                if not ok:
                    chk.violation({'kind': 'discovery', 'clause': 'DiscoverIsSpec', 'ckind': key, 'coltype': kind, 'variant': 'rich'},
                                  {'column_kind': kind, 'field': name, 'discovered': got, 'actual': str(want),
                                   'how': 'discover_df(rich frame).to_json(): the bound must be attained by a record'})
    return cnt


def run(chk):
    thorough = chk.tier == 'thorough'
    rows = run_.model_rows(chk, 4 if thorough else 3)
    if len(rows) < 1000:
        chk.machinery_error('vacuity: only %d columns in the case table' % len(rows))
    chk.coverage['columns'] = len(rows)
    run_.replay(chk, rows, ('discover',), thorough, chk.seed, CLAUSES, 'discovery')
    chk.coverage['category_sweep_cases'] = category_sweep(chk)
    chk.coverage['rich_extreme_bounds'] = rich_extremes(chk, random.Random(chk.seed + 7), 1500 if thorough else 250)
    from checks import c08
    chk.coverage['sqlite_tables'] = c08.discover_only(chk, rows, random.Random(chk.seed), None if thorough else 700, sig_kind='discovery')
    r = rows[len(rows) // 3]
    chk.sample({'column': r['col'], 'expected_discovery': r['disc'], 'demanded_keys': r['dkeys']})
    chk.coverage['rule'] = ('every column of <= N cells over the value grid of each type x dtype variants; expected = '
                            'SpecDiscover(col) from ConstraintSem.tla; plus 0..25 distinct categories x repeats x nulls; '
                            'non-trivial = non-empty column')
    chk.coverage['exhaustive'] = True
    chk.assume('no_duplicates on bool/date fields and the sign of an all-null numeric field are not demanded (Appendix A)')
    chk.assume('SQLite tables are built from the same abstract columns (one table name reused across types within the process)')


def replay(path):
    print(json.dumps(json.load(open(path)), indent=1)[:6000])
    return 0
