"""C17 - the tdda command line gives the same constraints and verdicts as the library. (DESIGN 5/C17)

Model: spec/Cli.tla (flags -> keyword arguments, contradictory flags, exit status, output allowed).
Spec -> code: every flag set of <= 4 flags per command (TLC table) x input / constraints / output file
states is run through tdda.constraints.console.main_with_argv (SystemExit captured) and, for a sample,
through `python -m tdda.constraints.console` subprocesses (stdin / stdout cases); the same keyword
arguments go to the library on load_df(file) and the results are compared.  Each invocation is one
trace line judged by Trace_Cli.
"""
import contextlib
import io
import json
import os
import random
import shutil
import subprocess
import sys

import numpy as np
import pandas as pd

from harness import common, tlc, trace

FLAGTEXT = {'rex': ['-r'], 'norex': ['-R'], 'ascii': ['-7'], 'all': ['-a'], 'fields': ['-f'], 'strict': ['-t', 'strict'],
            'sloppy': ['-t', 'sloppy'], 'epsilon': ['--epsilon', '0.01'], 'write-all': ['--write-all'],
            'per-constraint': ['--per-constraint'], 'no-per-constraint': ['--no-per-constraint'],
            'no-output-fields': ['--no-output-fields'], 'output-fields': ['--output-fields', 'id', 'x'],
            'interleave': ['--interleave'], 'index': ['--index'], 'int': ['--int']}


def make_tables(rnd, wd):
    """Base data (for discovery) and a perturbed copy (so that verify / detect have something to report)."""
    n = rnd.randint(4, 9)
    base = pd.DataFrame({'id': list(range(n)),
                         'x': [rnd.choice([-2.5, 0.0, 1.25, 3.5, 10.0]) for _ in range(n)],
                         'y': [rnd.choice([40.0, 55.5, 80.0, 100.0, 200.0]) for _ in range(n)],
                         'k': [bool(rnd.getrandbits(1)) for _ in range(n)],
                         'w': [rnd.randint(10, 50) for _ in range(n)],
                         'caf\u00e9 gr\u00f6\u00dfe \U0001F600': [rnd.choice([1.5, 2.5, 4.0]) for _ in range(n)],       # (a field name outside ASCII)
                         # (object dtype: the default str dtype of pandas 3 is not a string type to tdda; NA-like words are values)
                         's': pd.Series([rnd.choice(['a', 'bc', 'é☃', 'x y', 'q1', 'NA', 'null', 'None']) for _ in range(n)], dtype=object),
                         'd': pd.to_datetime([pd.Timestamp('2020-01-01') + pd.Timedelta(days=rnd.randint(0, 20)) for _ in range(n)])})
    pert = base.copy()
    pert.loc[0, 'x'] = 99.5
    pert.loc[1, 's'] = 'NEW-VALUE'
    if n > 3:
        pert.loc[3, 's'] = rnd.choice(['NA', 'null', 'None', 'n/a'])      # a word, not a missing value
    # beyond the discovered maximum, but within the tolerance of --epsilon 0.01: the verdict depends on epsilon
    pert.loc[2, 'y'] = float(base['y'].max()) * 1.005
    # a boolean field delivered as 0 / 1 integers: the library repairs field types before verifying, on every input format
    pert['k'] = pert['k'].astype('int64')
    # an integer field delivered as floating-point whole numbers: what the default (sloppy) type checking forgives and strict does not
    pert['w'] = pert['w'].astype('float64')
    return base, pert


def save(df, path):
    if path.endswith('.parquet'):
        df.to_parquet(path, index=False)
    else:
        df.to_csv(path, index=False)


def run_cli(argv, stdin_text=None):
    """In-process: (exit class, returned object, stdout text)."""
    from tdda.constraints import console
    out, err = io.StringIO(), io.StringIO()
    old_stdin = sys.stdin
    if stdin_text is not None:
        sys.stdin = io.StringIO(stdin_text)
    ret = None
    try:
        with contextlib.redirect_stdout(out), contextlib.redirect_stderr(err):
            ret = console.main_with_argv(['tdda'] + argv, verbose=False)
        code = 0
    except SystemExit as e:
        code = e.code if isinstance(e.code, int) else (0 if e.code is None else 1)
    except Exception as e:
        code = 'raised %s: %s' % (type(e).__name__, str(e)[:150])
    finally:
        sys.stdin = old_stdin
    return code, ret, out.getvalue(), err.getvalue()


def verdict_map(v):
    return {f: {k: (None if x is None else bool(x)) for k, x in fv.items()} for f, fv in v.fields.items()}


def lib_kwargs(cmd, kw):
    out = {}
    if cmd == 'discover':
        out['inc_rex'] = kw['inc_rex']
        return out
    if kw['type_checking'] != 'default':
        out['type_checking'] = kw['type_checking']
    if kw['epsilon']:
        out['epsilon'] = 0.01
    if cmd == 'verify':
        out['report'] = kw['report']
        return out
    out.update(write_all=kw['write_all'], per_constraint=kw['per_constraint'], interleave=kw['interleave'],
               index=kw['index'], boolean_ints=kw['boolean_ints'], in_place=False, report='records', rownumber_is_index=False)
    if kw['output_fields'] == 'given':
        out['output_fields'] = ['id', 'x']
    elif kw['output_fields'] == 'all':
        out['output_fields'] = []
    return out


def run(chk):
    thorough = chk.tier == 'thorough'
    rnd = random.Random(chk.seed + 17)
    r1 = tlc.run('MC_Cli', 'MC_Cli.cfg', name='MC_Cli')
    chk.add_tlc(r1)
    if r1.violated:
        chk.machinery_error('MC_Cli violates %s' % r1.violated)
    rows = sorted(r1.rows, key=lambda r: json.dumps([r['cmd'], sorted(r['flags'])]))
    if len(rows) < 1000:
        chk.machinery_error('vacuity: only %d flag sets' % len(rows))
    from tdda.constraints import discover_df, verify_df, detect_df
    from tdda.constraints.pd.constraints import load_df
    root = common.subdir('c17')
    events, detail = [], {}
    tid = 0
    small = [r for r in rows if r['cmd'] != 'detect']
    PAIRS = [{'all', 'fields'}, {'rex', 'norex'}, {'per-constraint', 'no-per-constraint'}, {'output-fields', 'no-output-fields'}]
    contradictory_detect = [r for r in rows if r['cmd'] == 'detect' and len(r['flags']) <= 3 and any(p <= set(r['flags']) for p in PAIRS)]
    sample = rows if thorough else (small + small + rnd.sample([r for r in rows if r['cmd'] == 'detect'], 180)
                                    + rnd.sample(contradictory_detect, min(40, len(contradictory_detect))))
    for r in sample:
        cmd, flags, kw = r['cmd'], sorted(r['flags']), r['kw']
        d = os.path.join(root, 'c%d' % tid)
        os.makedirs(d)
        base, pert = make_tables(rnd, d)
        fmt = rnd.choice(['csv', 'parquet'])
        stem = rnd.choice(['data', 'data', 'sales.2024', 'q3.final.v2', 'my data'])
        inp = os.path.join(d, stem + '.' + fmt)
        data = base if cmd == 'discover' or rnd.random() < 0.3 else pert
        save(data, inp)
        tdda_path = os.path.join(d, rnd.choice([stem + '.tdda', stem + '.tdda', 'cons.tdda']))
        if '.' in stem and rnd.random() < 0.5:
            # a sibling constraints file for another dataset
            with open(os.path.join(d, stem.split('.')[0] + '.tdda'), 'w') as f:
                f.write('{"fields": {"id": {"type": "string"}}}')
        # what is wrong with this invocation, if anything
        fault = rnd.choice(['none', 'none', 'none', 'missing-input', 'missing-constraints', 'unknown-flag'])
        if cmd == 'discover' and fault == 'missing-constraints':
            fault = 'none'
        with contextlib.redirect_stdout(io.StringIO()), contextlib.redirect_stderr(io.StringIO()):
            cs = discover_df(load_df(os.path.join(d, 'base.' + fmt) if False else _saved(base, d, fmt)), inc_rex=False)
        if cmd != 'discover' and fault != 'missing-constraints':
            with open(tdda_path, 'w') as f:
                f.write(cs.to_json())
        # positionals first, then the flags; --output-fields (which takes a list) goes last
        in_arg = inp if fault != 'missing-input' else os.path.join(d, 'nothere.' + fmt)
        argv = [cmd, in_arg]
        explicit_cons = os.path.basename(tdda_path) != stem + '.tdda' or cmd == 'discover' or rnd.random() < 0.4
        outpath = None
        if cmd == 'discover':
            argv.append(tdda_path)
        else:
            if explicit_cons or cmd == 'detect':
                argv.append(tdda_path)
            if cmd == 'detect':
                outpath = os.path.join(d, 'detected.' + rnd.choice(['csv', 'parquet']))
                argv.append(outpath)
        # flags before the input (the documented order) in half of the invocations, after the positionals otherwise;
        # --output-fields, which takes a list, always comes last
        front = []
        for fl in [f for f in flags if f != 'output-fields']:
            if tid % 2 == 0:
                front += FLAGTEXT[fl]
            else:
                argv += FLAGTEXT[fl]
        argv = [argv[0]] + front + argv[1:]
        if fault == 'unknown-flag':
            argv.append('--no-such-flag')
        if 'output-fields' in flags:
            argv += FLAGTEXT['output-fields']
        contradictory = bool(r['contradictory'])
        ascii7 = 'ascii' in flags or ('-7' in argv)
        expect_zero = fault == 'none' and not contradictory
        code, ret, out, err = run_cli(argv)
        ev = {'tid': tid, 'ev': 'Cli', 'cmd': cmd, 'raised': 'none', 'exitzero': code == 0, 'expectzero': expect_zero,
              'outputleft': bool(outpath and os.path.exists(outpath)) or (cmd == 'discover' and fault != 'none' and os.path.exists(tdda_path)),
              'sameaslib': True, 'closure': True, 'contradictory': contradictory, 'fault': fault}
        if isinstance(code, str):
            ev['raised'] = code.split(':')[0].replace('raised ', '')
        info = {'argv': argv, 'fault': fault, 'flags': flags, 'exit': code, 'stderr': err[-300:], 'stdout': out[-300:]}
        if code == 0 and expect_zero:
            try:
                lk = lib_kwargs(cmd, kw)
                with contextlib.redirect_stdout(io.StringIO()), contextlib.redirect_stderr(io.StringIO()):
                    ldf = load_df(inp)
                    if cmd == 'discover':
                        want = discover_df(ldf, **lk).to_dict()['fields']
                        got = json.load(open(tdda_path))['fields']
                        ev['sameaslib'] = json.loads(json.dumps(want, default=str)) == got
                        v = verify_df(load_df(inp), tdda_path)
                        ev['closure'] = v.failures == 0
                        if not ev['sameaslib']:
                            info['lib'] = json.loads(json.dumps(want, default=str))
                            info['cli'] = got
                    elif cmd == 'verify':
                        lv = verify_df(ldf, tdda_path, **lk)
                        ev['sameaslib'] = (ret is not None and (ret.passes, ret.failures) == (lv.passes, lv.failures)
                                           and verdict_map(ret) == verdict_map(lv))
                        info['lib'] = [lv.passes, lv.failures]
                        info['cli'] = None if ret is None else [ret.passes, ret.failures]
                    else:
                        lout = os.path.join(d, 'lib_' + os.path.basename(outpath))
                        lv = detect_df(ldf, tdda_path, outpath=lout, **lk)
                        same = ret is not None and (ret.passes, ret.failures) == (lv.passes, lv.failures)
                        same = same and os.path.exists(lout) == os.path.exists(outpath)
                        if same and os.path.exists(outpath):
                            if outpath.endswith('.csv'):
                                same = open(outpath).read() == open(lout).read()
                            else:
                                a, b = pd.read_parquet(outpath), pd.read_parquet(lout)
                                same = list(a.columns) == list(b.columns) and a.astype(str).equals(b.astype(str))
                        if same and os.path.exists(outpath):
                            # the records the file names are the records the library's result says failed (by position in the input)
                            try:
                                fdf_ = pd.read_csv(outpath) if outpath.endswith('.csv') else pd.read_parquet(outpath)
                                det_ = lv.detected()
                                if 'RowNumber' in fdf_.columns and det_ is not None and len(det_) == len(fdf_):
                                    lab_ = [int(x_) for x_ in (det_['RowNumber'] if 'RowNumber' in det_.columns else det_.index)]
                                    pos_ = {int(l_): i_ + 1 for i_, l_ in enumerate(ldf.index.tolist())}
                                    wantrows = [pos_.get(l_, l_) for l_ in lab_] if 'RowNumber' not in det_.columns else lab_
                                    if kw['write_all']:
                                        wantrows = list(range(1, len(fdf_) + 1))
                                    if [int(x_) for x_ in fdf_['RowNumber']] != wantrows:
                                        same = False
                                        info['rownumbers'] = {'file': [int(x_) for x_ in fdf_['RowNumber']][:20], 'library_result': wantrows[:20]}
                            except Exception as ex_:
                                info['rownumber_check_error'] = '%s: %s' % (type(ex_).__name__, str(ex_)[:120])
                        ev['sameaslib'] = bool(same)
            except Exception as ex:
                ev['raised'] = 'harness-lib-call %s' % type(ex).__name__
                ev['sameaslib'] = False       # what the command left could not even be read back / compared with the library's result
                info['lib_error'] = str(ex)[:200]
        events.append(ev)
        detail[tid] = info
        chk.coverage['replayed_cases'] += 1
        chk.count_case(json.dumps([cmd, flags, fault, fmt]), nontrivial=bool(flags))
        shutil.rmtree(d, ignore_errors=True)
        tid += 1
    # subprocess sample: real exit statuses, stdin and stdout --------------------------------------------------
    nsub = 80 if thorough else 20
    env = common.child_env()
    for i in range(nsub):
        d = os.path.join(root, 's%d' % i)
        os.makedirs(d)
        base, pert = make_tables(rnd, d)
        inp = os.path.join(d, 'data.csv')
        save(pert, inp)
        with contextlib.redirect_stdout(io.StringIO()), contextlib.redirect_stderr(io.StringIO()):
            cs = discover_df(base, inc_rex=False)
        tdda_path = os.path.join(d, 'cons.tdda')
        with open(tdda_path, 'w') as f:
            f.write(cs.to_json())
        mode = ['verify-stdin', 'discover-stdout', 'missing-input', 'unknown-flag', 'verify-file', 'detect-stdout', 'detect-twice', 'verify-stdin',
                'missing-constraints', 'verify-flags'][i % 10]
        stdin = None
        if mode == 'verify-stdin':
            argv, stdin, want0 = ['verify', '-', tdda_path], open(inp).read(), True
        elif mode == 'discover-stdout':
            argv, want0 = ['discover', inp, '-'], True
        elif mode == 'missing-input':
            argv, want0 = ['verify', os.path.join(d, 'no.csv'), tdda_path], False
        elif mode == 'unknown-flag':
            argv, want0 = ['detect', '--bogus', inp, tdda_path, os.path.join(d, 'out.csv')], False
        elif mode == 'detect-stdout':
            argv, want0 = ['detect', inp, tdda_path, '-'], True
        elif mode == 'missing-constraints':
            # the constraints file is what is missing (named, or the default next to the input)
            argv = rnd.choice([['verify', inp, os.path.join(d, 'missing.tdda')], ['detect', inp, os.path.join(d, 'missing.tdda'), os.path.join(d, 'out.csv')],
                               ['verify', inp], ['verify', '-', os.path.join(d, 'missing.tdda')]])
            stdin = open(inp).read() if '-' in argv else None
            want0 = False
        elif mode == 'verify-flags':
            # what the command prints under its report flags is what the library counts
            argv, want0 = ['verify'] + rnd.choice([['-f'], ['--fields'], ['-a'], ['--all'], ['-7', '-f'], ['-f', '--ascii']]) + [inp, tdda_path], True
        elif mode == 'detect-twice':
            # the same output path twice: first on data with failing records, then on clean data (nothing to report)
            outp_ = os.path.join(d, 'failures.' + rnd.choice(['csv', 'parquet']))
            clean_inp = os.path.join(d, 'clean.parquet')
            save(base, clean_inp)
            # constraints discovered from the clean file as it loads, so that the clean run really has nothing to report
            with contextlib.redirect_stdout(io.StringIO()), contextlib.redirect_stderr(io.StringIO()):
                cs2 = discover_df(load_df(clean_inp), inc_rex=False)
            tdda2 = os.path.join(d, 'clean.tdda')
            with open(tdda2, 'w') as f:
                f.write(cs2.to_json())
            p0 = subprocess.run([common.PY, '-m', 'tdda.constraints.console', 'detect', inp, tdda2, outp_], cwd=d, env=env, text=True,
                                stdout=subprocess.PIPE, stderr=subprocess.PIPE, timeout=120)
            argv, want0 = ['detect', clean_inp, tdda2, outp_], True
        else:
            argv, want0 = ['verify', inp, tdda_path], True
        p = subprocess.run([common.PY, '-m', 'tdda.constraints.console'] + argv, cwd=d, env=env, input=stdin, text=True,
                           stdout=subprocess.PIPE, stderr=subprocess.PIPE, timeout=120)
        ev = {'tid': tid, 'ev': 'Cli', 'cmd': argv[0], 'raised': 'none', 'exitzero': p.returncode == 0, 'expectzero': want0,
              'outputleft': os.path.exists(os.path.join(d, 'out.csv')), 'sameaslib': True, 'closure': True,
              'contradictory': False, 'fault': mode}
        if mode in ('verify-stdin', 'verify-flags', 'verify-file') and p.returncode == 0:
            with contextlib.redirect_stdout(io.StringIO()), contextlib.redirect_stderr(io.StringIO()):
                lv = verify_df(load_df(inp), tdda_path)
            ev['sameaslib'] = ('Constraints passing: %d' % lv.passes) in p.stdout and ('Constraints failing: %d' % lv.failures) in p.stdout
        if mode == 'detect-stdout' and p.returncode == 0:
            # the failing records are printed as CSV (record 0 and 1 were perturbed)
            # standard output is the detection output itself: exactly what the same command writes to a named file
            outf = os.path.join(d, 'named_output.csv')
            p2 = subprocess.run([common.PY, '-m', 'tdda.constraints.console', 'detect', inp, tdda_path, outf], cwd=d, env=env, text=True,
                                stdout=subprocess.PIPE, stderr=subprocess.PIPE, timeout=120)
            filetext = open(outf, encoding='utf-8').read() if os.path.exists(outf) else '<no file written>'
            ev['sameaslib'] = ('n_failures' in p.stdout and not os.path.exists(os.path.join(d, '-'))
                               and p.stdout.strip().splitlines() == filetext.strip().splitlines())
            if not ev['sameaslib']:
                ev_extra = {'stdout_lines': p.stdout.strip().splitlines()[:30], 'file_lines': filetext.strip().splitlines()[:30]}
            else:
                ev_extra = {}
        if mode == 'detect-twice' and p.returncode == 0:
            # the library leaves no file when nothing failed; neither may the command (the earlier run's file is stale)
            ev['sameaslib'] = not os.path.exists(outp_) if 'Records failing' not in p.stdout else True
            ev_extra = {'first_run_exit': p0.returncode, 'output_exists_after_clean_run': os.path.exists(outp_)}
        if mode == 'discover-stdout' and p.returncode == 0:
            try:
                got = json.loads(p.stdout)['fields']
                with contextlib.redirect_stdout(io.StringIO()), contextlib.redirect_stderr(io.StringIO()):
                    want = discover_df(load_df(inp), inc_rex=False).to_dict()['fields']
                ev['sameaslib'] = json.loads(json.dumps(want, default=str)) == got
            except ValueError:
                ev['sameaslib'] = False
        events.append(ev)
        detail[tid] = {'argv': argv, 'fault': mode, 'exit': p.returncode, 'stderr': p.stderr[-300:], 'stdout': p.stdout[-200:], 'subprocess': True}
        if mode in ('detect-stdout', 'detect-twice') and p.returncode == 0:
            detail[tid].update(ev_extra)
        chk.coverage['replayed_cases'] += 1
        shutil.rmtree(d, ignore_errors=True)
        tid += 1
    res, rejected = trace.validate('Trace_Cli', 'Trace_Cli.cfg', events, name='cli_runs', workers=4)
    chk.add_tlc(res)
    chk.coverage['traces_validated_against_impl'] += len(events)
    for rej in rejected:
        e = events[rej['line'] - 1]
        d = detail[e['tid']]
        for clause in rej['bad']:
            sig = {'kind': 'cli', 'clause': clause, 'cmd': e['cmd'], 'fault': e['fault']}
            if e['contradictory']:
                fl = set(d.get('flags', []))
                pairs = [p for p in (('all', 'fields'), ('rex', 'norex'), ('per-constraint', 'no-per-constraint'),
                                     ('output-fields', 'no-output-fields')) if set(p) <= fl]
                sig['contradictory_flags'] = ','.join('+'.join(p) for p in pairs)
            if e['raised'] != 'none':
                sig['error'] = e['raised']
            chk.violation(sig, dict(d, event=e, how='tdda.constraints.console.main_with_argv / python -m tdda.constraints.console; '
                                                    'library call on load_df(file) with the keyword arguments of spec/Cli.tla'))
    if events:
        chk.sample({'event': events[0], 'invocation': detail[0]['argv'][:4]})
    chk.coverage['rule'] = ('every set of <= 4 flags of discover (3 flags), verify (6) and detect (14) x csv / parquet input x explicit / '
                            'default constraints file x csv / parquet output x {fine, missing input, missing constraints, unknown flag}; '
                            'subprocess runs for exit statuses, standard input and standard output; non-trivial = at least one flag')
    chk.coverage['exhaustive'] = thorough
    chk.assume('creation metadata is excluded from comparisons; erroring invocations start from a directory without the output file')


def _saved(df, d, fmt):
    p = os.path.join(d, 'base.' + fmt)
    save(df, p)
    return p


def replay(path):
    print(json.dumps(json.load(open(path)), indent=1, ensure_ascii=False)[:6000])
    return 0
