"""What MANIFEST.json claims.  register(claim) is called by harness/mkmanifest.py."""

HOOK_COMMITS = []

# property id -> reason, for properties deliberately not claimed (default: not built yet)
NOT_CLAIMED = {}

NOTE_COMMON = ('Trusted: TLC 1.8.0 and the CommunityModules Json reader; the concretize/abstract functions of the '
               'harness (DESIGN section 4); Python, pandas, pyarrow, unittest as environment. Exhaustive only inside '
               'the stated bounds; beyond them the evidence is recorded traces judged by the specification.')


# what was added to a check after its first version (seed rounds 2 and 3, DESIGN 14.5 / 14.6); appended to the claim text
ADDENDA = {
    'C19': '  Classes that are plain unittest.TestCase and only borrow @tag.',
    'C07': '  Every string column is also replayed as a categorical with unused categories.',
    'C02': '  The fourth expression of every string pool is a prefix pattern (no trailing $).',
    'C01': '  Datetime kinds carry sub-second values (awkward binary fractions, random microseconds).'
           '  Field names that differ only in case; categoricals with unused categories.',
    'C03': '  Fragments with more distinct values than Size.max_strings_in_group whose class is widened only by late values.'
           '  Under strip the strings as supplied must match; whitespace-only and empty examples; numeric characters that are not digits; a majority shape plus rare members with extra-letter punctuation under sampling.',
    'C04': '  Identical content (same bytes on both sides) must pass at all three entry points under LF / CR LF / no final newline / '
           'blank or whitespace-only last line / other characters str.splitlines treats as line ends.'
           '  One ignore marker reads differently as a regular expression (substrings are literal).',
    'C05': '  Non-default option sets of the model rows are also run through assertDataFramesEqual, parquet-reference and on-disk entry '
           'points; rich pairs are compared against CSV and parquet reference files (never an internal error; a changed value, row or '
           'column still fails).'
           '  Mutations relabel (other row labels: pass), rowswap (rows reordered with their labels: fail), emptynull (empty string against null: fail).',
    'C06': '  Quick tier adds boolean columns of 5 cells (duplicates next to several nulls); 40 % of sessions use a frame whose index is a '
           'permutation of 0..n-1, records being identified by label.'
           '  Clause OutputCountsAreFalseFlags on the returned frame and on in-place columns; field names that extend another field\'s name.',
    'C08': '  Rich sessions add "a string no discovered expression matches", chosen after discovery against the discovered list '
           '(also for all-null columns and empty tables, whose list is empty).'
           '  Datetime columns with a time of day (breaking row on the same calendar day); rex perturbation in the other letter case.',
    'C09': '  An unparsable to_json of a discovered set is a ValidJson violation (never a machinery failure).'
           '  Clauses CallerDictionaryLeftAlone, SameDictionarySameResult, MetadataPreserved.',
    'C10': '  RefLoc.tla models class-level and per-instance reference locations with relative reference names; 120/600 sessions with up to '
           'three ReferenceTest instances are judged by Trace_RefLoc, which reconstructs the location tables itself (an assertion writes only '
           'the file its own instance and kind resolve to).'
           '  Strip options on text assertions with blank-line contents; kind lists that end in a comma.',
    'C11': '  Outputs may mention $TMPDIR (expanded by the command at run time), stderr carries machine tokens, and two outputs may have names '
           'that collide as identifiers; generated tests are located by parsing the script.  Known finding D35 (-n 1 with $TMPDIR mentioned).'
           '  The same base name in two directories; command text with backslashes, quotes, % and braces; an earlier generation in the same process; an output named ~/... under $HOME.',
    'C12': '  Once per session a whole line mentioning the machine is removed from / added to a stream or text file; every third session has a '
           'first stdout line with a date decades away and a forced character edit outside the date.'
           '  Exit status between two failure codes; binary outputs of 4096 / 8192 bytes with a byte appended; a character outside ASCII added to an ASCII text file.  Known finding D19 (unknown-extension binary read as text: line-separator bytes).',
    'C13': '  Equally frequent shapes with fewer patterns allowed than shapes (ties at the pruning cut, tag-neutral); dictionary keys with '
           'multiplicity 0.'
           '  Tag neutrality on the strings as supplied under strip; strings of 30-48 alphanumeric pairs (capture-group budget).',
    'C14': '  pandas forms: Series, categorical Series (with unused categories), list of two Series through pdextract.'
           '  Counter / defaultdict inputs; option full_escape; the same call as the first call of a fresh interpreter; repeats next to the sampling thresholds.',
    'C15': '  A second object is made before its temporary directory exists; the system temporary directory is watched.  The post-processed '
           'pair is demanded when an exclusion had an effect (TextCompare.ExclusionsHadEffect).'
           '  An actual file kept in the temporary directory under the library\'s own actual-<reference> name must still hold the actual content.',
    'C16': '  LoadDf.tla: where load_df takes the description of a CSV file from (explicit, the CSVW description itself, the associated file '
           'among 11 candidate names, none; ignore_apparent_metadata); all 2048 candidate subsets and 64 cases x 4 file names on real files '
           '(found and repaired D33, D34).  A second boolean column with its own spelling.'
           '  C1 control characters and # in string cells; the same file names rewritten with other contents.',
    'C17': '  The perturbed data holds a value beyond the discovered maximum but inside the tolerance of --epsilon; detect to standard output '
           'must equal, line for line, what the same command writes to a named file.'
           '  A boolean field delivered as 0/1 integers; every contradictory pair of detect flags; value-taking flags before the input.',
    'C18': '  incremental_coverage() must be the full listing reduced to the newly explained counts; the module-level functions are also '
           'called on hand-made overlapping expressions (300/1500 cases).'
           '  Byte-string examples with an encoding, an empty one among them.',
}

ADDENDA5 = {
    'C01': '  Date-object columns with years 1 / 2500 / 9999; kind longtext (55-70 words over several lines).',
    'C03': '  pdextract as entry point (every non-null value matched).',
    'C04': '  A remove marker that begins with a blank; *.pdf-named references for file entries.',
    'C05': '  Mutations catlist (an unused category on one side: pass) and catnull (null against the last label: fail); pd.NA nulls in object columns (found and repaired D36).',
    'C07': '  Discovered bounds of rich frames must be attained by a record; a string pool whose values end in blanks.',
    'C08': '  Integers beyond 2^53 in SQLite tables; U+2028 / U+2029 / U+0085 in text values.',
    'C09': '  File names rewritten by every case and cycle; hand-written bounds needing 16-17 digits with data exactly on the bound.',
    'C10': '  Focused histories check / regenerate (same size) / check new / check old without ageing of files.',
    'C11': "  Logs stamped with today's date; form feed, lone CR, CR LF, U+2028, NEL, FS inside output lines.  Known finding D37 (control characters make an output binary at generation).", 'C12': '  An output written with an old modification time; a plain line altered into a line that mentions the machine.',
    'C13': '  Two shapes sharing a constant where the shorter one ends; words with $.',
    'C14': '  rexpy_streams called twice with the same list.',
    'C15': '  List-of-files entry whose first pair uses an exclusion and whose second fails plainly.',
    'C17': '  NA / null / None as string values (object dtype); detect twice on one output path (failing data, then clean data).',
    'C18': '  ~110 distinct examples with default sizes (no sampling below the documented thresholds).',
    'C19': '  unittest -k PATTERN next to tdda flags.',
}
for _k, _v in ADDENDA5.items():
    ADDENDA[_k] = ADDENDA.get(_k, '') + _v

ADDENDA6 = {
    'C01': '  One frame object verified, given new values in place and discovered / verified again.',
    'C02': '  Frames of two or three different columns, each with part of its constraints (fields are independent).',
    'C04': '  One-option pairs of option sets at every entry point; a preprocess function that decides the verdict.',
    'C06': '  rownumber_is_index=False (RowNumber column of the file-based entry points).',
    'C07': '  Float bounds of rich frames incl. infinities must be present and attained.',
    'C08': '  Reals needing 17 digits; breaking rows one representable number beyond the extreme.',
    'C09': '  The set as discovered in memory is the set written (known findings D38, D24 facet); decomposed unicode field names.',
    'C10': '  CSV actual against parquet reference; text references named *.ps / *.html / *.eps.',
    'C11': '  A wildcard that matches nothing; outputs in ref*-named sub-directories.',
    'C12': '  A wildcard with a match left over from an earlier run; perturbation kinds recorded in the evidence.',
    'C13': '  Strings beyond 99 fragments with different lengths; sampling with rare extra-letter members.',
    'C14': '  Two-step entry point (Extractor(extract=False) ... extract()) with the global generator used in between; use_sampling=False with explicit thresholds.',
    'C15': '  Binary pairs behind a common prefix of thousands of bytes (invariant BinaryShift); an earlier failure in the same temporary directory.',
    'C16': '  Integers beyond 2^53 next to nulls; column names contained in earlier ones.',
    'C17': '  Missing constraints file and report flags through the real command.',
    'C18': '  Sampling switched off with 4300 distinct examples; expressions ending in a literal dollar.',
}
for _k, _v in ADDENDA6.items():
    ADDENDA[_k] = ADDENDA.get(_k, '') + _v

ADDENDA7 = {
    'C02': '  The empty rex list; null-valued constraints on fields the data lacks (the absence decides).',
    'C03': '  A varying punctuation character with 6-10 distinct values (backslash, caret, brackets, hyphen).',
    'C04': '  A preprocess that is not idempotent.',
    'C05': '  sortby with two or three keys.',
    'C06': "  Index labels and names are part of 'the input frame is unchanged'.",
    'C08': '  The column as a member of a composite primary key.',
    'C09': '  Names containing U+FEFF; the dictionary as to_dict() returns it.',
    'C10': '  Kinds called csv / table / graph / text; the legacy assertCSVFileCorrect (found and repaired D39).',
    'C11': '  An earlier generation in the same directory under a script name differing in letter case; an 80-160 KiB output that is ASCII but for its end.',
    'C12': '  A history in which the changed command is run by hand before the first test run.',
    'C13': '  Letters with unusual case mappings; a constant backslash before constant text.',
    'C16': '  Header-only tables.',
    'C17': "  RowNumber of the command's output = records of the library's result; an integer field delivered as floats.",
    'C19': '  Real scripts ending in ReferenceTestCase.main() with class names and with a load_tests() hook.',
}
for _k, _v in ADDENDA7.items():
    ADDENDA[_k] = ADDENDA.get(_k, '') + _v

ADDENDA8 = {
    'C01': '  Names with blanks at their ends; words with literal braces.',
    'C04': '  Actual and reference files with the same modification time.',
    'C07': '  Single-precision columns; SQL columns declared INT / SMALLINT / TINYINT.',
    'C08': '  Decomposed / composed unicode values; constraint file names reused within a process.',
    'C09': '  Sentinel date bounds judged against their documented meaning; values / nonnull / nodups as unknown kinds.',
    'C11': "  The machine's IP address in the command's output (found and repaired D40).",
    'C13': '  Run lengths before a class change; extra letters next to non-ASCII letters.',
    'C14': '  Seeded calls that end in an error.',
    'C15': '  Passes through the permutation allowance write nothing.',
    'C16': '  upgrade_possible_ints next to a declared number column.',
    'C17': '  A field name outside ASCII; unreadable command output is a difference from the library.',
    'C18': '  Very long strings with a line break.',
}
for _k, _v in ADDENDA8.items():
    ADDENDA[_k] = ADDENDA.get(_k, '') + _v


def register(claim):
    claim('C10',
          technique='TLA+ session model (RefTest.tla) + argv case analysis (Argv.tla), TLC exhaustive; '
                    'every model transition replayed on the real ReferenceTest; recorded sessions validated '
                    'by a TLC trace spec that reconstructs the regeneration table; the session properties proved for arbitrary '
                    'constants with TLAPS (RefTest_proofs.tla)',
          text='TLC checks OnlyOnRequest / NormalModeFrame / ExactlySelected / RegenThenPass on every reachable state of '
               'the regeneration-table x reference-directory model and ImplFlags = SpecFlags on every well-shaped argv of '
               '<= 3 (quick) or 4 (thorough) tokens over 22 spellings.  Every (state, action) pair of the model is '
               'executed on the real code with real files for each assertion type, and random sessions of up to 30 '
               'calls are recorded and accepted or rejected line by line by Trace_RefTest.  A history-dependent change '
               '(e.g. the table being polluted by a lookup) is rejected because the spec, not the log, carries the table.  The pytest entry '
               'point is bound the same way: 36/240 generated projects (conftest.py importing tdda.referencetest.pytestconfig) are run as '
               'real `python -m pytest` processes with --write-all / --write k1 k2 / k1,k2 / --wquiet / --tagged, the tests record their '
               'own assertions, and each process is one more session for Trace_RefTest (flags become SetRegeneration lines by their '
               'documented meaning; a following process without flags must pass on what was regenerated).',
          note=NOTE_COMMON + ' Known finding D23 (parquet round trip changes object/datetime64[s] dtypes) is listed in '
               'known_findings.json.',
          ref='DESIGN.md section 5, C10')
    claim('C19',
          technique='TLA+ case analysis (Argv.tla: transcription of the argv scanner and tagged loader vs the '
                    'documented meaning), TLC exhaustive; case tables replayed on real ReferenceTestCase.main runs; '
                    'recorded runs judged by Trace_Argv',
          text='TLC enumerates every argv of <= 3/4 tokens over a 22-token vocabulary and every module of <= 2 classes x '
               '<= 2 tests x tag bits x class-name selections, checks transcription = specification, and writes the case '
               'tables; the harness runs each well-shaped argv through the real scanner and (argv, module) pairs through '
               'real unittest runs of generated modules, and validates random larger runs (4 classes, inheritance, richer '
               'flag bundles) against the specification.  The pytest collection filter (referencepytest.tagged) is judged by the same '
               'SpecExecuted / SpecListed: 220/1800 real pytest runs (MC_ArgvSel rows and richer modules with inheritance and tagged '
               'module-level functions) x --tagged / --istagged / node ids / -v / -x are PyRun lines of Trace_Argv.',
          note=NOTE_COMMON + ' Command lines are restricted to the WellShaped predicate of Argv.tla (DESIGN Appendix A).',
          ref='DESIGN.md section 5, C19')
    claim('C01',
          technique='TLA+ ConstraintSem (discovery and satisfaction transcribed and specified) with the operator-level '
                    'theorem Closure checked by TLC on every grid column; VerifySession state machine; every abstract '
                    'column replayed through real discover_df -> verify_df/detect_df; rich sessions validated by a TLC trace spec',
          text='TLC proves on every column of <= 3/4 cells over the value grid of each type that what ImplDiscover reports '
               'satisfies ImplSat and SpecSat (ClosureHolds) and that every discover/serialise/verify path of VerifySession '
               'keeps Closure.  Each abstract column x dtype variant x rex runs through the real discover -> verify/detect '
               'chain, and 400/3000 random sessions over 21 column kinds (specials, extremes, unicode, >20 categories, '
               'zero rows) x dict/file x verify/detect x repair are recorded and judged by Trace_VerifySession.',
          note=NOTE_COMMON + ' Known findings D2 (tz-aware columns) and D25 (a field called n_failures).',
          ref='DESIGN.md section 5, C01')
    claim('C02',
          technique='TLA+ case analysis: SpecSat (documented meaning) vs ImplSat (transcription of the verifiers) in '
                    'ConstraintSem.tla, TLC exhaustive over columns x constraint families; the case table written by TLC is '
                    'replayed on the real verify_df',
          text='For every column of <= 3/4 cells and its family of ~150 constraints (on / inside / outside every boundary, '
               '3 precisions x 4 epsilons, sign classes, 31 type lists x strict/sloppy, lengths, nulls, duplicates, allowed '
               'values, regular expressions, null-valued, missing field) TLC checks ImplSat = SpecSat where the documentation '
               'fixes the answer, and emits expected verdicts; the harness runs each family through real verify_df on every '
               'dtype variant and compares verdicts, totals, per-field counts and to_frame().  VerifyReport.tla states the result object as a '
               'function of the verdict map (totals, per-field counts, tabular form, printed report under report=all / fields, plain and ascii '
               'marks) and NullNeutral; 300/3000 families are re-run with one constraint of every kind on the same field, under both report '
               'modes, and with null-valued constraints of every missing kind added; each call is a line judged by Trace_VerifyReport.',
          note=NOTE_COMMON + ' Known finding D2 (min/max on tz-aware columns raise).',
          ref='DESIGN.md section 5, C02')
    claim('C06',
          technique='TLA+ SpecFlags/ImplFlags in ConstraintSem.tla (TLC exhaustive) + DetectSession.tla state machine for '
                    'the output file and record counts; case-table replay on detect_df; recorded multi-run detection '
                    'sessions validated by Trace_DetectSession',
          text='Per-record flags of every failing demanded constraint are compared with SpecFlags on every grid column and '
               'dtype variant; verdicts of detect are compared with the specification; 200/1200 recorded sessions (several runs '
               'on one output path, stale files planted, every option drawn from the full product, csv/parquet/no file) are '
               'judged line by line: failure counts, partition, output = failing records, file exists iff some constraint '
               'failed, input frame unchanged unless in place.',
          note=NOTE_COMMON + ' Known findings D2 and D24 (detection of date bounds on tz-aware / date-object columns raises).',
          ref='DESIGN.md section 5, C06')
    claim('C07',
          technique='TLA+ SpecDiscover vs ImplDiscover in ConstraintSem.tla, TLC exhaustive; expected discovery records '
                    'replayed on discover_df for every column x dtype variant, plus a 0..25 category sweep',
          text='TLC checks transcription = specification of discovery and the Attained theorem on every grid column and '
               'writes the expected statistics; the harness compares them with real discover_df output key by key.',
          note=NOTE_COMMON + ' no_duplicates on bool/date fields and the sign of an all-null field are not demanded. '
               'The SQLite side is exercised by the C08 check.',
          ref='DESIGN.md section 5, C07')
    claim('C09',
          technique='TLA+ case analysis of the .tdda load/dump pair on value classes (TddaFile.tla: Fixpoint, UnknownNeutral, '
                    'OrderFree checked by TLC on every field dictionary of <= 3 keys); table concretized and cycled through the '
                    'real loader/writer; write/load cycles recorded as traces and judged by Trace_TddaFile',
          text='TLC enumerates 18k field dictionaries over {type, min, max, sign, max_nulls, rex, unknown, #comment} x value '
               'classes (ints, reals, date strings in 4 spellings, precision dictionaries, nulls, lists) and checks the round-trip '
               'laws on the transcription; every well-formed one is concretized (unicode names, quotes, backslashes, 17-digit '
               'reals, microsecond fractions) and taken through 2-4 real write/load(path) cycles with verdict comparison on data '
               'built around the bounds, as are constraint sets discovered from rich frames.',
          note=NOTE_COMMON + " Text identity is demanded on the 'fields' section (loading from a path adds "
               'creation_metadata.tddafile). Known finding D27 (Infinity tokens).',
          ref='DESIGN.md section 5, C09')
    claim('C04',
          technique='TLA+ case analysis (TextCompare.tla): declarative SpecPass vs transcription ImplPass of check_strings / '
                    'wrong_content / check_patterns / permutation check, TLC exhaustive over text pairs x 256 option '
                    'combinations; the case table is replayed on the real check_strings and on the assertion entry points',
          text='TLC enumerates every pair of texts of <= 2 lines over a 12-line pool and <= 3 lines over a 3-line pool (thorough: '
               '<= 3 lines over 7) x {lstrip, rstrip, ignore_substrings, remove_lines} x 4 pattern lists x max_permutation_cases 0..3 '
               '(6.7M cases), checks transcription = specification plus IdenticalPasses / UnexcusedFails, and writes the expected '
               'verdicts as bit rows; the harness runs 2.2M (quick) real check_strings calls on three token alphabets (ASCII, '
               'non-ASCII incl. Arabic-Indic digits, multi-character markers) and a sample through assertStringCorrect / '
               'assertTextFileCorrect / assertTextFilesCorrect with final-newline and preprocess variants.',
          note=NOTE_COMMON + ' Lines are sequences over a 7-token alphabet; trailing empty lines and permutation/pattern options on '
               'blank-padded lines under stripping are compared with the transcription only.',
          ref='DESIGN.md section 5, C04')
    claim('C15',
          technique='TLA+ transcription of reconstruct() as a two-cursor machine with postcondition RebuildOK, and BinSpec, '
                    'checked by TLC (MC_TextArtefacts); every failing case replayed on real assertions with a fresh tmp_dir and a '
                    'canary directory; each run is a trace line judged by Trace_TextArtefacts',
          text='For every pair of texts of <= 3+2 lines over a 6-line pool x {lstrip, ignore_substrings, remove_lines, pattern} TLC '
               'checks that the rebuilt pair differs exactly on the unexcused lines and emits those lines; the harness runs the '
               'assertions for real, parses the suggested commands out of the failure message, stats the named files, compares '
               'the raw actual file with the actual and the post-processed pair with the expected differing lines, snapshots the '
               'temporary and canary directories, and checks offset and lengths for all byte-string pairs of <= 3 bytes.',
          note=NOTE_COMMON + ' The final newline of the raw actual file is not demanded.',
          ref='DESIGN.md section 5, C15')
    REX_NOTE = (NOTE_COMMON + ' The character-class table (which classes each Category expression matches, isdigit, ...) is '
                'regenerated from the running interpreter and the working tree at every run and is the only source of '
                'facts about characters; matching is judged by re.fullmatch with UNICODE|DOTALL.')
    claim('C03',
          technique='TLA+ session model of the sample/extract/check/extend loop (RexLoop.tla, TLC exhaustive over parameter '
                    'space, liveness under fairness) + TLA+ case analysis of fragment refinement over character classes '
                    '(RexFrag.tla); recorded runs of the real Extractor validated step by step by Trace_RexLoop',
          text='TLC shows that the repaired designs are sound (Covered, Terminates on 11k states; FragSound on every set of <= 3 of '
               'the interpreter\'s character classes x extra letters x dialect x arrangement) and that the pinned deviations are not; '
               'the harness replays every class set as real example lists and 700/4000 rich random runs (all options, Size 1..3 that '
               'force sampling, seeds) whose loop steps - working set, match sets by real re, reported failures, PRNG draws - are bound '
               'to the specification\'s variables.  An unmatched example is a violation unless a named deviation explains it.',
          note=REX_NOTE + ' Known findings D4, D5a, D5b, D6.',
          ref='DESIGN.md section 5, C03')
    claim('C13',
          technique='RexFrag / RexLoop TLA+ models (TLC) for the design; every recorded result and its tag-flipped twin is one '
                    'trace line (match sets by re, compile/anchor facts) judged by Trace_RexResult',
          text='900/5000 runs (fragment-targeted class sets and rich multisets, pruning options, Size settings, seeds): each returned '
               'expression must compile, be anchored, match some example, appear once, and be no more numerous than distinct '
               'examples; tagged and untagged runs must have identical match sets.',
          note=REX_NOTE + ' Known findings D4, D5a, D5b (an expression built from digit-like characters matches nothing).',
          ref='DESIGN.md section 5, C13')
    claim('C14',
          technique='RexLoop.tla PRNG discipline (SeededOnly, PrngRestored) checked by TLC in the repaired and the seed-late order; '
                    'pairs of real calls that must agree recorded as trace lines and judged by Trace_RexResult',
          text='450/2500 inputs x {permuted, reversed, frequency dictionary, example repeated, call repeated, cleared memo} with '
               'random.getstate() hashed before and after every seeded call (incl. empty inputs), fragments with more than '
               'max_strings_in_group distinct values, and Size settings that force sampling.',
          note=REX_NOTE + ' Order independence is demanded when no random sampling takes place.',
          ref='DESIGN.md section 5, C14')
    claim('C18',
          technique='TLA+ transcription of the greedy incremental-coverage loop with its accounting postconditions '
                    '(RexCoverage.tla, TLC exhaustive over all 3x3 / 3x4 match matrices x frequencies x dedup, termination); the '
                    'figures reported by real Extractor objects are judged with the same operators by Trace_RexCoverage',
          text='For 800/4000 real extractions (lists with repeats, frequency dictionaries with keys that collapse under strip, pruning '
               'options, dedup on/off) the harness logs the true match matrix and the reported n / n_uniq / incr / incr_uniq / '
               'coverage() / n_examples(); the spec requires exact coverage, credited-once, non-increasing order, sums and counts.',
          note=REX_NOTE + ' Demanded when the object stores the supplied multiset; known finding D16 (sampling keeps the working sample).',
          ref='DESIGN.md section 5, C18')
    claim('C08',
          technique='TLA+ DbSession (discover / verify / add one breaking row / verify) on top of ConstraintSem: the operator-level '
                    'theorems DbClosure and Notices checked by TLC on every grid column with the perturbations the model derives; '
                    'each (column, perturbation) replayed on a real SQLite database; sessions judged by Trace_DbSession',
          text='For every column of <= 3/4 cells x SQL type spelling x quoted column name the model lists the single rows that break '
               'one discovered constraint (below min, above max, shorter, longer, new category, duplicate, extra null, wrong sign); '
               'each is inserted into a real SQLite table after discover_db_table -> .tdda file, and verify_db_table must report that '
               'kind as failed (and nothing before the insertion).  Rich text tables (quotes, backslashes, unicode, empty strings, '
               'all-null, empty table) x rex run as recorded sessions.',
          note=NOTE_COMMON + ' SQLite only (no other drivers installed).',
          ref='DESIGN.md section 5, C08')
    claim('C16',
          technique='TLA+ case analysis (Csvw.tla): the ordered str.replace chain transcribed with Python semantics vs the field-wise '
                    'translation, on every composed pattern; and the dialect/header -> read_csv keyword decision table; TLC '
                    'exhaustive; patterns replayed on the real translator and on real CSV + CSVW files through csv2pandas; each '
                    'load is a trace line judged by Trace_Csvw',
          text='1408 date / date-time patterns (d|dd, M|MM, yy|yyyy in 4 orders x 4 separators, optional time HH:mm[:ss[.S|SS|SSS]] '
               'joined by space or T): translation compared on all; real instants (leap day, midnight, fractions exact for the field '
               'width) written with the intended pattern and read back; 480-case dialect matrix (delimiter , | tab ; x utf-8/latin-1/'
               'utf-16 x header present / absent in 3 spellings x titles x boolean spelling) over typed columns with a null row.',
          note=NOTE_COMMON + ' Value fidelity is measured on real files; fields are separated (no adjacent fields).',
          ref='DESIGN.md section 5, C16')
    claim('C05',
          technique='TLA+ case analysis (FrameCompare.tla): declarative SpecEqual vs the transcription of check_dataframe on '
                    'reference frames x single mutations x option sets, TLC exhaustive (CopyPasses, SingleMutationFails, NeverError); '
                    'case table replayed on check_dataframe and the assertion entry points; rich frames, and histories on one '
                    'comparison object, recorded as traces judged by Trace_FrameCompare',
          text='8 reference frames (int64, Int64, float64, bool, object, string, category, datetime64, empty) x every single mutation '
               '(cell within / beyond precision, null, name, type, order, add/drop column, add/drop row) x 255 option sets '
               '(check_types / check_data / check_order / check_extra_cols as None, False, list or function; type_matching; sortby; '
               'condition; precision); default options through assertDataFramesEqual, parquet, CSV and on-disk entry points; 500/3000 '
               'rich frames over 21 column kinds with single mutations; sessions of 2-4 comparisons with explicit and default '
               'precision on one object.',
          note=NOTE_COMMON + ' Categorical = string; no half-way rounding cases; file entry points on dtypes the format preserves.',
          ref='DESIGN.md section 5, C05')
    claim('C17',
          technique='TLA+ case analysis (Cli.tla): flags -> keyword arguments, contradictory pairs, exit status and whether output may '
                    'be left; TLC enumerates every flag set of <= 4 flags per command; each is run for real through main_with_argv '
                    '(and subprocesses for stdin / stdout / exit status) next to the library call with the specified keywords; every '
                    'invocation is a trace line judged by Trace_Cli',
          text='1536 flag sets (discover 3 flags, verify 6, detect 14) x csv / parquet input with plain and dotted file names x explicit / '
               'default constraints file (with a decoy sibling) x csv / parquet output x {valid, missing input, missing constraints, '
               'unknown flag}: constraints files compared with discover_df on load_df(file) minus creation metadata, verdict maps and '
               'counts with verify_df, detection files byte for byte with detect_df; discover -> verify closure; exit statuses.',
          note=NOTE_COMMON + ' Known finding D30 (-a with -f, -r with -R accepted).',
          ref='DESIGN.md section 5, C17')
    claim('C11',
          technique='TLA+ file-system model of tdda gentest (Gentest.tla: Generate / Perturb / RunGeneratedTest over paths -> content ids, '
                    'invariants NoClobber, ScriptExists, ScriptPasses) and a case analysis of the date detector (DateLike.tla), TLC '
                    'exhaustive; DateLike case table replayed on the real is_date_like; real gentest sessions in scratch directories '
                    'recorded (directory snapshots, py_compile, verdict of every generated test) and judged by Trace_Gentest, whose '
                    'variables are bound to the observed directory',
          text='TLC explores every directory x behaviour x option combination of the small model (2 outputs, 2 other files, 3 contents) '
               'and every triple of numbers 0..32 / years for the date detector (never raises; pinned pre-fix model raises).  56/400 '
               'real sessions per run: commands printing plain, date-, time-, version-, path-like, host/user/cwd, quote, backslash, '
               'regex-metacharacter and unicode lines, 0..2 output files (text, binary, one under $TMPDIR) given by directory, name or '
               'glob, exit 0/3, -n 1..3, --no-stdout/--no-stderr/--non-zero-exit, relative/absolute script names, with pre-existing '
               'unrelated files (also with an old mtime), stale script and reference directory, same-named outputs.  Each session: '
               'snapshot, real `python -m tdda.referencetest.gentest`, snapshot, compile, run the script, snapshot; NoClobber is evaluated '
               'after generation and after the run of the generated test, and every test in the script (not only the expected ones) must pass.',
          note=NOTE_COMMON + ' Known finding D19b (binary output with an unknown extension and -n 1).  D14 and D32 were repaired.',
          ref='DESIGN.md section 5, C11')
    claim('C12',
          technique='TLA+ file-system model of tdda gentest (Gentest.tla, invariant Teeth: after one change the test of the changed thing '
                    '- and only that one - does not pass; vacuity config without removal of previous outputs violates it), TLC exhaustive; '
                    'real sessions generate, perturb the command one change at a time, run the generated script, restore, run again, '
                    'all recorded and judged by Trace_Gentest',
          text='42/300 sessions x 2/3 perturbations drawn on a fixed rotation (file no longer produced, stream edited, file edited, exit '
               'status changed): a character of the first line changed (never inside a date, so far-past / far-future dates stay on the '
               'line), a line added or removed, a byte of a binary file changed, a cwd file no longer produced (with and without a '
               'second output under $TMPDIR), exit status 0 <-> 3.  After each: the verdict of every generated test is bound to the '
               'model and Teeth is evaluated; after restoring the behaviour ScriptPasses is evaluated again.',
          note=NOTE_COMMON + ' Known finding D19b (binary output with an unknown extension and -n 1: spurious error of the binary file test).',
          ref='DESIGN.md section 5, C12')
