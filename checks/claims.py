"""What MANIFEST.json claims.  register(claim) is called by harness/mkmanifest.py."""

HOOK_COMMITS = []

# property id -> reason, for properties deliberately not claimed (default: not built yet)
NOT_CLAIMED = {}


def register(claim):
    pass
