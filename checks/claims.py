"""What MANIFEST.json claims.  register(claim) is called by harness/mkmanifest.py."""

HOOK_COMMITS = []

# property id -> reason, for properties deliberately not claimed (default: not built yet)
NOT_CLAIMED = {}

NOTE_COMMON = ('Trusted: TLC 1.8.0 and the CommunityModules Json reader; the concretize/abstract functions of the '
               'harness (DESIGN section 4); Python, pandas, pyarrow, unittest as environment. Exhaustive only inside '
               'the stated bounds; beyond them the evidence is recorded traces judged by the specification.')


def register(claim):
    claim('C10',
          technique='TLA+ session model (RefTest.tla) + argv case analysis (Argv.tla), TLC exhaustive; '
                    'every model transition replayed on the real ReferenceTest; recorded sessions validated '
                    'by a TLC trace spec that reconstructs the regeneration table',
          text='TLC checks OnlyOnRequest / NormalModeFrame / ExactlySelected / RegenThenPass on every reachable state of '
               'the regeneration-table x reference-directory model and ImplFlags = SpecFlags on every well-shaped argv of '
               '<= 3 (quick) or 4 (thorough) tokens over 22 spellings.  Every (state, action) pair of the model is '
               'executed on the real code with real files for each assertion type, and random sessions of up to 30 '
               'calls are recorded and accepted or rejected line by line by Trace_RefTest.  A history-dependent change '
               '(e.g. the table being polluted by a lookup) is rejected because the spec, not the log, carries the table.',
          note=NOTE_COMMON + ' Known finding D23 (parquet round trip changes object/datetime64[s] dtypes) is listed in '
               'known_findings.json.',
          ref='DESIGN.md section 5, C10')
    claim('C19',
          technique='TLA+ case analysis (Argv.tla: transcription of the argv scanner and tagged loader vs the '
                    'documented meaning), TLC exhaustive; case tables replayed on real ReferenceTestCase.main runs; '
                    'recorded runs judged by Trace_Argv',
          text='TLC enumerates every argv of <= 3/4 tokens over a 22-token vocabulary and every module of <= 2 classes x '
               '<= 2 tests x tag bits x class-name selections, checks transcription = specification, and writes the case '
               'tables; the harness runs each well-shaped argv through the real scanner and (argv, module) pairs through '
               'real unittest runs of generated modules, and validates random larger runs (4 classes, inheritance, richer '
               'flag bundles) against the specification.',
          note=NOTE_COMMON + ' Command lines are restricted to the WellShaped predicate of Argv.tla (DESIGN Appendix A).',
          ref='DESIGN.md section 5, C19')
