"""C18 - rexpy coverage figures equal true match counts and account for all examples. (DESIGN 5/C18)"""
import json
import random

from harness import common, tlc, trace
from harness import rex_lib as rx
from harness import rex_runs as rr


def coverage_event(tid, given, kw, sizekw, dedup, decoded=None):
    """One Extractor: its match matrix (by Python re) and everything it reports about coverage."""
    r = rx.run_extract(given, **kw)
    if r['raised'] != 'none' or r['obj'] is None or not r['rex']:
        return None, r
    x = r['obj']
    kept = rx.kept_examples(decoded if decoded is not None else given, kw.get('strip', False), kw.get('remove_empties', False))
    strings = sorted(kept)
    freqs = [kept[s] for s in strings]
    try:
        full = x.full_incremental_coverage(dedup=dedup)
        incview = x.incremental_coverage(dedup=dedup)
        cov = x.coverage(dedup=dedup)
        nex, nexu = x.n_examples(), x.n_examples(dedup=True)
    except Exception as ex:
        r['raised'] = '%s: %s' % (type(ex).__name__, str(ex)[:120])
        return None, r
    # the incremental listing is keyed by (terminated) expression; .index points into results.rex
    order = list(full.items())
    rexes = list(r['rex'])
    # matrix rows in the order of results.rex; the res sequence refers to them by position
    mx = [[bool(rx.full_match(p, s)) for s in strings] for p in rexes]
    res = []
    for text, c in order:
        res.append({'p': int(c.index) + 1, 'n': int(c.n), 'nuniq': int(c.n_uniq), 'incr': int(c.incr), 'incruniq': int(c.incr_uniq)})
    store = {}
    for s_, f_ in zip(x.examples.strings, x.examples.freqs):
        store[s_] = store.get(s_, 0) + int(f_)
    r['store_is_supplied'] = (store == dict(kept)) and len(x.examples.strings) == len(set(x.examples.strings))
    r['store_has_repeated_entries'] = len(x.examples.strings) != len(set(x.examples.strings))
    ev = {'tid': tid, 'mx': mx, 'freq': freqs, 'dedup': bool(dedup), 'res': res,
          'cov': [int(v) for v in cov] + [0] * max(0, len(rexes) - len(cov)), 'ncov': len(cov), 'covdedup': bool(dedup),
          'incrview': [int(v_) for v_ in incview.values()] if list(incview.keys()) == [t for t, _ in order] else [-1],
          'allmatched': all(any(row[i] for row in mx) for i in range(len(strings))),
          'supplied': sum(freqs), 'supplieduniq': len(strings), 'nexamples': int(nex), 'nexamplesuniq': int(nexu)}
    r['full'] = [(t, tuple(c)) for t, c in order]
    return ev, r


def run(chk):
    thorough = chk.tier == 'thorough'
    rnd = random.Random(chk.seed + 18)
    cfg = open('/verif/spec/MC_RexCoverage.cfg').read()
    if thorough:
        cfg = cfg.replace('MaxE = 3', 'MaxE = 4')
    r1 = tlc.run('RexCoverage', cfg_text=cfg, name='MC_RexCoverage', timeout=1800)
    chk.add_tlc(r1)
    if r1.violated:
        chk.machinery_error('the transcription of the greedy loop violates %s' % r1.violated)
    events, detail = [], {}
    n = 4000 if thorough else 800
    tid = 0
    for i in range(n):
        ex = rx.rich_examples(rnd)
        kw, sizekw = rx.rich_options(rnd)
        mode = i % 4
        decoded = None
        if mode == 0:
            # frequency dictionary; keys that collapse under stripping
            d = {}
            for e in ex:
                if e is not None:
                    d[e] = d.get(e, 0) + rnd.randint(1, 4)
            for e in list(d)[:2]:
                d[' ' + e] = rnd.randint(1, 3)
                d[e + ' '] = rnd.randint(1, 3)
            given = d
            if rnd.random() < 0.6:
                kw['strip'] = True
        elif mode == 1 and i % 40 == 1:
            # more distinct examples than Size.do_all (100), default sizes: every one of them is still an example
            ids_ = sorted({'id%04d' % rnd.randint(0, 9999) for _ in range(104)}) + ['%s-%d' % (rnd.choice('ABC'), k_) for k_ in range(8)]      # ~110 distinct
            given = ids_ if rnd.random() < 0.5 else {s_: rnd.randint(1, 2) for s_ in ids_}
            kw, sizekw = {}, None
        elif mode == 1 and i % 400 == 21:
            # sampling switched off explicitly, more distinct examples than the sampling default (4000): all of them count
            from tdda.rexpy.rexpy import Size as Size_
            ids_ = sorted({'%s%05d' % (rnd.choice(['id', 'ID', 'x-']), rnd.randint(0, 99999)) for _ in range(4300)}) + ['%d.%d' % (k_, k_) for k_ in range(9)]
            given = ids_ if rnd.random() < 0.5 else {s_: rnd.randint(1, 2) for s_ in ids_}
            kw, sizekw = {'size': rnd.choice([0, False, Size_(use_sampling=False)])}, None
        elif mode == 3 and i % 40 == 23:
            # very long strings (the 'too many fragments' fallback describes them by length) that contain a line break
            longs = ['-'.join([rnd.choice(['ab', 'cd', 'xy'])] * rnd.choice([55, 60, 60, 70])) for _ in range(2)]
            longs = [l_[:40] + '\n' + l_[40:] for l_ in longs] + ['-'.join(['pq'] * 60)]
            given = longs + rnd.sample(['ab', 'cd12', 'x-y', 'zz'], 2)
            if rnd.random() < 0.5:
                given = {s_: rnd.randint(1, 2) for s_ in given}
            kw, sizekw = {}, None
        elif mode == 3 and i % 40 == 3:
            # values that end in a literal dollar, and values that go on after it
            cur = rnd.sample(['US', 'AU', 'NZ', 'CA', 'HK'], 3)
            given = {cur[0] + '$': rnd.randint(1, 3), cur[1] + '$': rnd.randint(1, 3), cur[0] + '$100': rnd.randint(1, 2), cur[2] + '$250': rnd.randint(1, 4)}
            kw, sizekw = {}, None
        elif mode == 1:
            given = list(ex) + [e for e in ex if e is not None]      # repeats
        elif mode == 2 and i % 8 == 2:
            # byte strings with an encoding (list or frequency dictionary), an empty one among them
            enc = rnd.choice(['utf-8', 'utf-16', 'latin-1'])
            strs = [e for e in ex if e is not None and (enc != 'latin-1' or all(ord(c_) < 256 for c_ in e))] + ['']
            if rnd.random() < 0.5:
                decoded = {}
                for e in strs:
                    decoded[e] = decoded.get(e, 0) + rnd.randint(1, 3)
                given = {e.encode(enc): n_ for e, n_ in decoded.items()}
            else:
                decoded = list(strs)
                given = [e.encode(enc) for e in strs]
            kw['encoding'] = enc
        else:
            given = ex
        if rnd.random() < 0.25:
            kw['max_patterns'] = rnd.randint(1, 3)
        if rnd.random() < 0.2:
            kw['min_strings_per_pattern'] = rnd.randint(2, 3)
        dedup = rnd.random() < 0.5
        ev, r = coverage_event(tid, given, kw, sizekw, dedup, decoded=decoded if kw.get('encoding') else None)
        if ev is None:
            continue
        if r['store_has_repeated_entries'] and sizekw is None and not ev['allmatched']:
            # an unmatched example (C03's finding) made the loop append failures it already had: the object's store lists
            # strings twice; C03 reports the witness, nothing is demanded here (Appendix A)
            chk.coverage['runs_skipped_because_C03_failed'] = chk.coverage.get('runs_skipped_because_C03_failed', 0) + 1
            continue
        ev['sampling'] = sizekw is not None
        ev['store_ok'] = r['store_is_supplied']
        events.append(ev)
        detail[tid] = {'examples': given if not kw.get('encoding') else {'bytes_of': decoded, 'encoding': kw['encoding']}, 'options': {k: v for k, v in kw.items() if k != 'size'}, 'size': sizekw, 'dedup': dedup,
                       'returned': r['rex'], 'reported': r.get('full'), 'coverage': ev['cov'],
                       'n_examples': [ev['nexamples'], ev['nexamplesuniq']], 'supplied': [ev['supplied'], ev['supplieduniq']]}
        chk.coverage['replayed_cases'] += 1
        chk.count_case(json.dumps([str(given), sorted(detail[tid]['options'].items()), sizekw, dedup], default=str),
                       nontrivial=len(r['rex']) > 1)
        tid += 1
    # the module-level functions on hand-made, overlapping expressions (an Extractor rarely returns overlapping ones)
    from tdda.rexpy.rexpy import Examples, rex_coverage, rex_full_incremental_coverage, rex_incremental_coverage
    PATS = ['^[a-z]+$', '^a.*$', '^.*[0-9]$', '^[a-z]{2}$', '^.+$', '^[0-9]+$', '^ab$', '^[a-z][a-z0-9]$', '^$',
            '^[A-Z][A-Z0-9]\\$$', '^[A-Z]{2}\\$[0-9]+$', '^.*\\$$']       # (expressions whose last character before the anchor is a literal dollar)
    EXS = ['ab', 'ac', 'a1', 'b2', '12', 'zz', 'abc', 'a', '', 'A1', 'é', 'A1$', 'US$', 'US$100', 'NZ$2']
    for _ in range(1500 if thorough else 300):
        pats = rnd.sample(PATS, rnd.randint(1, 4))
        strings = rnd.sample(EXS, rnd.randint(1, 7))
        freqs = [rnd.randint(1, 3) for _ in strings]
        dedup = rnd.random() < 0.5
        try:
            exo = Examples(list(strings), list(freqs))
            cov = rex_coverage(pats, exo, dedup)
            full = rex_full_incremental_coverage(pats, exo, sort_on_deduped=dedup)
            incview = rex_incremental_coverage(pats, exo, sort_on_deduped=dedup)
        except Exception as exn:
            chk.violation({'kind': 'rex-coverage', 'clause': 'NoError', 'error': type(exn).__name__, 'sampling': False, 'working_sample_only': False},
                          {'patterns': pats, 'strings': strings, 'freqs': freqs, 'dedup': dedup, 'error': str(exn)[:200]})
            continue
        order_ = sorted(range(len(strings)), key=lambda i_: strings[i_])
        ss = [strings[i_] for i_ in order_]
        ff = [freqs[i_] for i_ in order_]
        mx = [[bool(rx.full_match(p_, s_)) for s_ in ss] for p_ in pats]
        res_ = [{'p': int(c.index) + 1, 'n': int(c.n), 'nuniq': int(c.n_uniq), 'incr': int(c.incr), 'incruniq': int(c.incr_uniq)}
                for t_, c in full.items()]
        ev = {'tid': tid, 'mx': mx, 'freq': ff, 'dedup': bool(dedup), 'res': res_, 'cov': [int(v_) for v_ in cov], 'ncov': len(cov),
              'covdedup': bool(dedup), 'incrview': [int(v_) for v_ in incview.values()] if list(incview.keys()) == list(full.keys()) else [-1],
              'allmatched': all(any(row[i_] for row in mx) for i_ in range(len(ss))), 'supplied': sum(ff), 'supplieduniq': len(ss),
              'nexamples': sum(ff), 'nexamplesuniq': len(ss), 'sampling': False, 'store_ok': True}
        events.append(ev)
        detail[tid] = {'examples': dict(zip(strings, freqs)), 'options': {'module_level_functions': True}, 'size': None, 'dedup': dedup,
                       'returned': pats, 'reported': [(t_, tuple(c)) for t_, c in full.items()], 'coverage': ev['cov'],
                       'incremental_coverage': list(incview.items()), 'n_examples': [sum(ff), len(ss)], 'supplied': [sum(ff), len(ss)]}
        chk.coverage['replayed_cases'] += 1
        tid += 1
    clean = [{k: v for k, v in e.items() if k not in ('sampling', 'store_ok')} for e in events]
    res, rejected = trace.validate('Trace_RexCoverage', 'Trace_RexCoverage.cfg', clean, name='rex_coverage', workers=4)
    chk.add_tlc(res)
    chk.coverage['traces_validated_against_impl'] += len(events)
    for rej in rejected:
        e = events[rej['line'] - 1]
        for clause in rej['bad']:
            sig = {'kind': 'rex-coverage', 'clause': clause, 'sampling': e['sampling']}
            d = detail[e['tid']]
            sig['working_sample_only'] = bool(e['sampling'] and not e['store_ok'])
            chk.violation(sig, dict(d, failed_clause=clause, how='Extractor.coverage / full_incremental_coverage / n_examples '
                                                                 'against the match matrix taken with re.fullmatch; judged by '
                                                                 'spec/Trace_RexCoverage.tla'))
    if events:
        chk.sample({'event': clean[0], 'case': {k: detail[0][k] for k in ('examples', 'options', 'returned')}})
    chk.coverage['rule'] = ('rich random multisets as lists with repeats and as frequency dictionaries (incl. keys that collapse under '
                            'strip) x dedup on/off x all options incl. pruning x Size settings; the real match matrix is logged and '
                            'the reported figures are judged with the operators of RexCoverage.tla; non-trivial = more than one expression')
    chk.coverage['exhaustive'] = False
    chk.assume("'sums to the total number of examples' is demanded on runs where every example is matched (otherwise C03's witness is the finding)")
    chk.assume("'the number supplied' counts non-null examples with multiplicity after the requested stripping / removal of empties")


def replay(path):
    print(json.dumps(json.load(open(path)), indent=1, ensure_ascii=False)[:6000])
    return 0
