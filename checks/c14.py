"""C14 - rexpy results depend only on the multiset of examples and the seed. (DESIGN 5/C14)"""
import hashlib
import json
import os
import pickle
import random

from harness import common, tlc, trace
from harness import rex_lib as rx
from harness import rex_runs as rr


def prng_fingerprint():
    return hashlib.sha1(pickle.dumps(random.getstate())).hexdigest()


def call(examples, kw):
    before = prng_fingerprint()
    r = rx.run_extract(examples, **kw)
    after = prng_fingerprint()
    return r, before == after


def as_dict(examples):
    d = {}
    for e in examples:
        if e is not None:
            d[e] = d.get(e, 0) + 1
    return d


def run(chk):
    thorough = chk.tier == 'thorough'
    rnd = random.Random(chk.seed + 14)
    # design: the PRNG discipline of the loop (SeededOnly, PrngRestored) in the repaired and the pinned order
    r1 = tlc.run('MC_RexLoop', 'MC_RexLoop.cfg', name='MC_RexLoop_repaired')
    chk.add_tlc(r1)
    if r1.violated:
        chk.machinery_error('the repaired loop design violates %s' % r1.violated)
    if thorough:
        r2 = tlc.run('MC_RexLoop', 'MC_RexLoop_pinned.cfg', name='MC_RexLoop_seed_late')
        chk.add_tlc(r2)
        chk.coverage['seed_late_model_violates_SeededOnly'] = 'SeededOnly' in r2.violated
        if 'SeededOnly' not in r2.violated:
            chk.machinery_error('vacuity: seeding after the first sample should violate SeededOnly')
    # the first rexpy calls of this process use the less common escaping policy for every (extra letters, dialect) pair:
    # whatever the module remembers from them must not show in later calls (compared with fresh interpreters below)
    for x_ in [None, '_', '.-', '_.-', '-', '.']:
        for d_ in rx.DIALECTS:
            kw0 = {'dialect': d_, 'full_escape': True}
            if x_:
                kw0['extra_letters'] = x_
            call(['AB-12', 'CD-34', 'x y'], kw0)
    events, detail = [], {}
    n = 2500 if thorough else 450
    tid = 0
    recs = []
    for i in range(n):
        ex = rx.rich_examples(rnd)
        kw, sizekw = rx.rich_options(rnd)
        if i % 4 == 0:
            # fragments with more than max_strings_in_group (10) distinct values: order must still not matter
            base = ['%03d' % rnd.randint(0, 999) for _ in range(rnd.randint(12, 18))] + [rnd.choice(['x7q', 'ab1', 'Z99', '1é2'])]
            rnd.shuffle(base)
            ex = base
        if rnd.random() < 0.3:
            kw['max_patterns'] = rnd.randint(1, 3)
        if rnd.random() < 0.15:
            kw['min_strings_per_pattern'] = 2
        seeded = kw.get('seed') is not None
        doall = (sizekw or {}).get('do_all', 100)
        nd = len(set(e for e in ex if e is not None))
        sampling = sizekw is not None and nd > doall
        base, prng_ok = call(list(ex), kw)
        if base['raised'] != 'none':
            continue
        variants = []
        if not sampling:
            perm = list(ex)
            rnd.shuffle(perm)
            variants.append(('permute', perm))
            variants.append(('reverse', list(reversed(ex))))
            variants.append(('dict', as_dict(ex)))
            import collections
            variants.append(('counter', collections.Counter(as_dict(ex))))
            dd = collections.defaultdict(int)
            dd.update(as_dict(ex))
            variants.append(('defaultdict', dd))
            prune = kw.get('max_patterns') is not None or kw.get('min_strings_per_pattern', 1) > 1
            if not prune:
                variants.append(('double', list(ex) + [e for e in ex if e is not None][:max(1, len(ex) // 2)]))
        if not sampling or seeded:
            variants.append(('repeat', list(ex)))
        for kind, v in variants:
            r, ok2 = call(v, kw)
            ev = {'tid': tid, 'ev': 'Pair', 'kind': kind, 'raised': 'none' if r['raised'] == 'none' else r['raised'].split(':')[0],
                  'same': r['rex'] == base['rex'], 'seeded': seeded, 'prngsame': prng_ok and ok2, 'sampling': sampling}
            events.append(ev)
            detail[tid] = {'examples': ex, 'variant': v if not isinstance(v, dict) else v, 'options': {k: x for k, x in kw.items() if k != 'size'},
                           'size': sizekw, 'first': base['rex'], 'second': r['rex']}
            chk.coverage['replayed_cases'] += 1
            chk.count_case((kind, json.dumps(ex), json.dumps(detail[tid]['options'], sort_keys=True), json.dumps(sizekw)),
                           nontrivial=len(base['rex']) > 0)
            tid += 1
        # seeded calls with empty / all-null inputs must leave the generator alone too
        if i % 10 == 0:
            for empty in ([], [None], {'a': 0}):
                kw2 = dict(kw)
                kw2['seed'] = rnd.randint(0, 9)
                r, ok = call(empty, kw2)
                events.append({'tid': tid, 'ev': 'Pair', 'kind': 'empty', 'raised': 'none' if r['raised'] == 'none' else r['raised'].split(':')[0],
                               'same': r['rex'] == [], 'seeded': True, 'prngsame': ok, 'sampling': False})
                detail[tid] = {'examples': empty if not isinstance(empty, dict) else empty, 'options': {k: x for k, x in kw2.items() if k != 'size'},
                               'size': sizekw, 'first': [], 'second': r['rex']}
                tid += 1
    # seeded calls that END IN AN ERROR (an example that is not a string, bytes without an encoding): the caller's generator is as it was
    for i in range(200 if thorough else 40):
        good = [e for e in rx.rich_examples(rnd) if e is not None][:6] or ['ab']
        bad = rnd.choice([good + [('a', 'tuple')], [b'bytes', b'without encoding'] + [g.encode('utf-8') for g in good],
                          {b'k1': 2, b'k2': 1}, good + [3.5]])
        kw = {'seed': rnd.randint(0, 9)}
        if rnd.random() < 0.5:
            from tdda.rexpy.rexpy import Size as Size_
            kw['size'] = Size_(do_all=2, do_all_exceptions=2)
        r, ok = call(bad, kw)
        if r['raised'] == 'none':
            continue            # (the library coped with it: nothing to say here)
        events.append({'tid': tid, 'ev': 'Pair', 'kind': 'raising', 'raised': 'none', 'same': True, 'seeded': True, 'prngsame': ok, 'sampling': False})
        detail[tid] = {'examples': repr(bad)[:300], 'form': 'a seeded call that raises (%s)' % r['raised'][:80], 'options': {'seed': kw['seed']},
                       'size': None, 'first': [], 'second': []}
        chk.coverage['replayed_cases'] += 1
        tid += 1
    # the two-step entry point: Extractor(..., extract=False) now, x.extract() later, the global generator used in between
    from tdda.rexpy.rexpy import Extractor
    for i in range(600 if thorough else 120):
        ex = [e for e in rx.rich_examples(rnd) if e is not None]
        kw, sizekw = rx.rich_options(rnd)
        kw['seed'] = rnd.randint(0, 9)
        one, ok1 = call(list(ex), kw)
        if one['raised'] != 'none':
            continue
        try:
            with rx.quiet():
                x = Extractor(list(ex), extract=False, **kw)
                for _ in range(rnd.randint(1, 4)):
                    random.random()                     # the caller's own use of the generator
                before = prng_fingerprint()
                x.extract()
                after = prng_fingerprint()
            second = list(x.results.rex) if x.results else []
            raised = 'none'
        except Exception as exn:
            second, raised, before, after = [], type(exn).__name__, 0, 0
        events.append({'tid': tid, 'ev': 'Pair', 'kind': 'two-step', 'raised': raised, 'same': second == one['rex'], 'seeded': True,
                       'prngsame': ok1 and before == after, 'sampling': False})
        detail[tid] = {'examples': ex, 'form': 'Extractor(examples, extract=False, seed=s, ...); random.random(); x.extract()',
                       'options': {k: v for k, v in kw.items() if k != 'size'}, 'size': sizekw, 'first': one['rex'], 'second': second}
        chk.count_case(('two-step', json.dumps(ex), json.dumps(detail[tid]['options'], sort_keys=True)), nontrivial=bool(second))
        chk.coverage['replayed_cases'] += 1
        tid += 1
    # "repeating an example changes nothing", also next to the sampling thresholds: the number of DISTINCT strings lies
    # between do_all_exceptions and do_all, while the number of strings supplied (with repeats) lies beyond do_all
    from tdda.rexpy.rexpy import Size
    for i in range(120 if thorough else 25):
        shapes = [lambda: ''.join(rnd.choice('abcdefgh') for _ in range(rnd.randint(2, 3))), lambda: 'A-%d' % rnd.randint(0, 99),
                  lambda: '%d.%d' % (rnd.randint(0, 9), rnd.randint(0, 9)), lambda: '#' + rnd.choice('xyz') * rnd.randint(1, 2)]
        vals = []
        while len(vals) < 12:
            v_ = rnd.choice(shapes)()
            if v_ not in vals:
                vals.append(v_)
        sizekw = {'do_all': 12, 'do_all_exceptions': rnd.choice([2, 3, 5]), 'max_sampled_attempts': rnd.randint(0, 2)}
        kw = {'seed': rnd.randint(0, 9), 'size': Size(**sizekw)}
        base, ok0 = call(list(vals), kw)
        if base['raised'] != 'none':
            continue
        forms = [('twice', vals + vals), ('thrice', vals * 3), ('one repeated', vals + [vals[0]] * 20), ('dict of 2s', {v_: 2 for v_ in vals}),
                 ('dict of 1s', {v_: 1 for v_ in vals})]
        for label, v in forms:
            r, ok2 = call(v, dict(kw, size=Size(**sizekw)))
            events.append({'tid': tid, 'ev': 'Pair', 'kind': 'repeats', 'raised': 'none' if r['raised'] == 'none' else r['raised'].split(':')[0],
                           'same': r['rex'] == base['rex'], 'seeded': True, 'prngsame': ok0 and ok2, 'sampling': False})
            detail[tid] = {'examples': vals, 'form': label, 'options': {'seed': kw['seed']}, 'size': sizekw, 'first': base['rex'], 'second': r['rex']}
            chk.count_case(('repeats', json.dumps(vals), label, json.dumps(sizekw)), nontrivial=True)
            tid += 1
    # rexpy_streams with a list of strings (a documented input form): repeating the call with the same list gives the
    # same expressions, those of the list without its header line, and leaves the caller's list alone
    from tdda.rexpy.rexpy import rexpy_streams
    from tdda.rexpy import extract as _extract
    for i in range(200 if thorough else 40):
        body = [e for e in rx.rich_examples(rnd) if e is not None]
        if not body:
            continue
        given = ['header line'] + body
        snapshot_ = list(given)
        seed = rnd.randint(0, 9)
        try:
            r1_ = rexpy_streams(given, out_path=False, skip_header=True, seed=seed)
            r2_ = rexpy_streams(given, out_path=False, skip_header=True, seed=seed)
            r3_ = _extract(list(body), seed=seed)
            raised = 'none'
        except Exception as exn:
            r1_, r2_, r3_, raised = [], None, None, type(exn).__name__
        events.append({'tid': tid, 'ev': 'Pair', 'kind': 'streams', 'raised': raised, 'same': r1_ == r2_ == r3_ and given == snapshot_,
                       'seeded': True, 'prngsame': True, 'sampling': False})
        detail[tid] = {'examples': snapshot_, 'form': 'rexpy_streams(list, skip_header=True) twice, and extract(list[1:])',
                       'options': {'seed': seed}, 'size': None, 'first': r1_, 'second': r2_, 'third': r3_, 'list_afterwards': given}
        tid += 1
    # pandas Series form (pdextract: default options, optional seed): same expressions as the list of its values
    import pandas as pd
    from tdda.rexpy import pdextract, extract
    for i in range(400 if thorough else 80):
        # pandas' own unique() truncates object strings at a NUL character (environment): no NULs in this form
        ex = [e if e is None else e.replace('\x00', '~') for e in rx.rich_examples(rnd)]
        seed = rnd.choice([None, rnd.randint(0, 99)])
        strings = [e for e in ex if e is not None]
        before = prng_fingerprint()
        try:
            first = extract(list(strings), seed=seed)
            ser = pd.Series(list(ex), dtype=object)
            if i % 3 == 0 and len(ex) > 1:
                k = rnd.randint(1, len(ex) - 1)
                second = pdextract([ser.iloc[:k], ser.iloc[k:]], seed=seed)
                form = 'list of two Series'
            elif i % 3 == 1 and strings and len(strings) == len(ex):
                cat = ser.astype('category')
                if i % 2 == 1:
                    # categories that no row uses (declared up front, or left behind by a filter) are not examples
                    cat = cat.cat.add_categories(['ZZ-unused_9', '00'])
                second = pdextract(cat, seed=seed)
                form = 'categorical Series' + (' with unused categories' if i % 2 == 1 else '')
            else:
                second = pdextract(ser, seed=seed)
                form = 'Series'
            raised = 'none'
        except Exception as exn:
            first, second, raised, form = [], None, type(exn).__name__, 'Series'
        after = prng_fingerprint()
        events.append({'tid': tid, 'ev': 'Pair', 'kind': 'series', 'raised': raised, 'same': first == second,
                       'seeded': seed is not None, 'prngsame': before == after, 'sampling': False})
        detail[tid] = {'examples': ex, 'form': form, 'options': {'seed': seed}, 'size': None, 'first': first, 'second': second}
        chk.count_case(('series', json.dumps(ex), seed, form), nontrivial=bool(first))
        tid += 1
    # history: the shared regex memo (and any other module state) must not matter
    from tdda.rexpy import rexpy
    nh = 300 if thorough else 60
    for i in range(nh):
        ex = rx.rich_examples(rnd)
        kw, sizekw = rx.rich_options(rnd)
        if sizekw is not None and kw.get('seed') is None:
            continue
        first, _ = call(list(ex), kw)              # after an arbitrary history of earlier calls
        rexpy.memo.clear()
        rexpy.nCalls = 0
        second, ok = call(list(ex), kw)            # as if it were the first call in the process
        events.append({'tid': tid, 'ev': 'Pair', 'kind': 'history', 'raised': 'none', 'same': first['rex'] == second['rex'],
                       'seeded': kw.get('seed') is not None, 'prngsame': ok, 'sampling': False})
        detail[tid] = {'examples': ex, 'options': {k: x for k, x in kw.items() if k != 'size'}, 'size': sizekw,
                       'first': first['rex'], 'second': second['rex']}
        tid += 1
    # history, stronger: the same call in a FRESH interpreter (no earlier rexpy call at all, whatever caches the module keeps)
    import subprocess
    from concurrent.futures import ThreadPoolExecutor
    fresh_cases = []
    for i in range(240 if thorough else 40):
        ex = [e for e in rx.rich_examples(rnd) if e is not None]
        kw, sizekw = rx.rich_options(rnd)
        if sizekw is not None and kw.get('seed') is None:
            continue
        if i % 2 == 0:
            ex = rnd.choice([['tel 0131 496 0091', 'tel 0141 555 0123', 'tel 0151 496 0555'], ['a b-1', 'a b-2'], ['x: 1', 'x: 22', 'x: 333']])   # constant fragments with blanks
            kw.pop('strip', None)
        # an earlier call in this process with the complementary escaping policy (everything else the same) must not matter
        call(['AB-12', 'CD-34', 'x y'], dict({k_: v_ for k_, v_ in kw.items() if k_ != 'size'}, full_escape=not kw.get('full_escape', False)))
        here, ok = call(list(ex), kw)
        if here['raised'] != 'none':
            continue
        fresh_cases.append((ex, {k: v for k, v in kw.items() if k != 'size'}, sizekw, here['rex'], ok))
    env = common.child_env()

    def fresh(c):
        p_ = subprocess.run([common.PY, '-W', 'ignore', os.path.join(common.VERIF, 'harness', 'rex_fresh.py')], env=env,
                            input=json.dumps({'examples': c[0], 'kw': c[1], 'size': c[2]}), text=True, capture_output=True, timeout=300)
        try:
            return json.loads(p_.stdout)
        except ValueError:
            return {'rex': None, 'raised': 'no output: ' + p_.stderr[-200:]}
    with ThreadPoolExecutor(14) as pool_:
        fresh_results = list(pool_.map(fresh, fresh_cases))
    for c, fr in zip(fresh_cases, fresh_results):
        events.append({'tid': tid, 'ev': 'Pair', 'kind': 'freshprocess', 'raised': 'none' if fr['raised'] == 'none' else str(fr['raised'])[:40],
                       'same': fr['rex'] == c[3], 'seeded': c[1].get('seed') is not None, 'prngsame': c[4], 'sampling': False})
        detail[tid] = {'examples': c[0], 'options': c[1], 'size': c[2], 'first': c[3], 'second': fr['rex'],
                       'note': 'first: after the history of this whole check; second: first call of a fresh interpreter'}
        tid += 1
    res, rejected = trace.validate('Trace_RexResult', 'Trace_RexResult.cfg', events, name='rex_pairs', workers=4)
    chk.add_tlc(res)
    chk.coverage['traces_validated_against_impl'] += len(events)
    for rej in rejected:
        e = events[rej['line'] - 1]
        for clause in rej['bad']:
            chk.violation({'kind': 'rex-pair', 'clause': clause, 'sampling': e['sampling']},
                          dict(detail[e['tid']], event=e, how='two tdda.rexpy.extract calls that must agree; random.getstate() '
                                                                'hashed before and after; judged by spec/Trace_RexResult.tla'))
    if events:
        chk.sample({'event': events[0], 'case': detail[0]})
    kinds = {}
    for e in events:
        kinds[e['kind']] = kinds.get(e['kind'], 0) + 1
    chk.coverage['pairs_by_kind'] = kinds
    chk.coverage['rule'] = ('pairs of calls on the same multiset: permuted, reversed, frequency dictionary, pandas Series (object, categorical, list of two), an example repeated, the call '
                            'repeated, after a cleared regex memo; seeded calls incl. empty inputs with the global generator state hashed '
                            'before and after; non-trivial = some expression returned')
    chk.coverage['exhaustive'] = False
    chk.assume('order independence is demanded when no random sampling takes place (number of distinct examples <= Size.do_all); '
               'with sampling only seeded repeatability and generator restoration are demanded')
    chk.assume('repeating an example must change nothing under the default pruning options')
    chk.assume('Series inputs hold no NUL characters (pandas.Series.unique truncates object strings at NUL: environment)')


def replay(path):
    print(json.dumps(json.load(open(path)), indent=1, ensure_ascii=False)[:6000])
    return 0
