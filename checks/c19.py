"""C19 - tagged runs execute exactly the tagged tests; listing runs none.  (DESIGN 5/C19)

Model: spec/Argv.tla (ImplFlags vs SpecFlags, ImplExecuted vs SpecExecuted).
Spec -> code: the case tables written by TLC (every argv of <= N tokens over a 22-token vocabulary;
every module of <= 2 classes x <= 2 tests x tag bits x class-name sets) are replayed on the real
_set_flags_from_argv and on real ReferenceTestCase.main runs.
Code -> spec: random larger modules (inheritance, up to 4 classes) and richer command lines are run
for real and every recorded run is judged by Trace_Argv.
"""
import json
import os
import random

from harness import common, tlc, trace
from harness import reftest_lib as rl


def module_key(structure):
    return json.dumps(sorted(
        [{'cls': c['cls'], 'ctag': c['ctag'],
          'tests': sorted(({'name': t['name'], 'mtag': t['mtag']} for t in c['tests']),
                          key=lambda t: t['name'])} for c in structure],
        key=lambda c: c['cls']), sort_keys=True)


def sig_for(argv_strs, real, spec):
    """Signature of a flags witness (for known-findings matching)."""
    return {'kind': 'argv-flags', 'argv': ' '.join(argv_strs[1:])}


def run_flags_table(chk, rows, pid):
    """Replay the MC_Argv case table on the real scanner. Returns list of well-shaped rows."""
    ws_rows = []
    for r in rows:
        argv_strs = [rl.tok2str(t) for t in r['argv']]
        real = rl.real_flags(argv_strs)
        chk.coverage['replayed_cases'] += 1
        if r['ws']:
            ws_rows.append(r)
            chk.count_case(('flags', tuple(argv_strs)), nontrivial=len(argv_strs) > 1)
            if not rl.same_flags(real, r['spec']):
                chk.violation({'kind': 'argv-flags', 'argv': ' '.join(argv_strs[1:])},
                              {'argv': argv_strs, 'observed': real, 'expected': _plain(r['spec']),
                               'how': 'tdda.referencetest.referencetestcase._set_flags_from_argv(argv)'})
        else:
            chk.count_case(('flags-ns', tuple(argv_strs)), nontrivial=False)
        if not rl.same_flags(real, r['impl']) and not (r['ws'] and not rl.same_flags(real, r['spec'])):
            chk.drift_case({'argv': argv_strs, 'observed': real, 'impl': _plain(r['impl'])})
    return ws_rows


def _plain(m):
    return {'argv': [rl.tok2str(t) for t in m['argv']], 'regen': m['regen'], 'tagged': m['tagged'],
            'check': m['check'], 'quiet': m['quiet'], 'kinds': sorted(rl.tok2str(k) for k in m['kinds']),
            'raised': m['raised']}


def run(chk):
    rnd = random.Random(chk.seed)
    thorough = chk.tier == 'thorough'
    # 1. design models ----------------------------------------------------------------------
    cfg = ('CONSTANTS\n  Defects = {}\n  MaxArgs = %d\n  EmitRows = TRUE\nINIT Init\nNEXT Next\n'
           'INVARIANT ImplIsSpec\nINVARIANT KeepsSomething\nINVARIANT EmitCase\nCHECK_DEADLOCK FALSE\n'
           % (4 if thorough else 3))
    r1 = tlc.run('MC_Argv', cfg_text=cfg, name='MC_Argv', timeout=1500)
    chk.add_tlc(r1)
    if r1.violated:
        chk.machinery_error('MC_Argv (Defects={}) violates %s: the repaired design does not meet '
                            'the specification' % r1.violated)
    r2 = tlc.run('MC_ArgvSel', 'MC_ArgvSel.cfg', name='MC_ArgvSel')
    chk.add_tlc(r2)
    if r2.violated:
        chk.machinery_error('MC_ArgvSel violates %s' % r2.violated)
    if thorough:
        r3 = tlc.run('MC_Argv', 'MC_Argv_pinned.cfg', name='MC_Argv_pinned')
        chk.add_tlc(r3)
        chk.coverage['pinned_model_violates_ImplIsSpec'] = 'ImplIsSpec' in r3.violated
        if 'ImplIsSpec' not in r3.violated:
            chk.machinery_error('vacuity: the model with ArgvWriteOneEarly should violate ImplIsSpec')
    # 2. spec -> code: flags table ---------------------------------------------------------------
    r1.rows.sort(key=lambda r: json.dumps(r, sort_keys=True))
    r2.rows.sort(key=lambda r: json.dumps(r, sort_keys=True))
    ws_rows = run_flags_table(chk, r1.rows, chk.pid)
    if len(ws_rows) < 50:
        chk.machinery_error('vacuity: only %d well-shaped argv cases' % len(ws_rows))
    chk.coverage['argv_cases'] = len(r1.rows)
    chk.coverage['argv_cases_well_shaped'] = len(ws_rows)
    # 3. spec -> code: selection -------------------------------------------------------------------
    sel = {}
    modules = {}
    for r in r2.rows:
        mk = module_key(r['module'])
        modules[mk] = r['module']
        sel[(mk, tuple(sorted(r['names'])), r['tagged'], r['check'])] = (
            sorted(tuple(x) for x in r['executed']), sorted(r['listed']))
    mkeys = sorted(modules)
    usable = []
    for r in ws_rows:
        if r['spec']['raised']:
            continue
        names = [t[0] for t in r['spec']['argv'][1:] if t and t[0] != '-']
        if all(n in ('A', 'B') for n in names):
            usable.append((r, tuple(sorted(set(names)))))
    per = 12 if thorough else 2
    if not thorough:
        rnd.shuffle(usable)
        usable = usable[:700]
    nrun = 0
    for r, names in usable:
        argv_strs = [rl.tok2str(t) for t in r['argv']]
        cands = [k for k in mkeys if all(n in [c['cls'] for c in modules[k]] for n in names)]
        for mk in rnd.sample(cands, min(per, len(cands))):
            structure = modules[mk]
            exp = sel.get((mk, names, r['spec']['tagged'], r['spec']['check']))
            if exp is None:
                chk.machinery_error('no selection row for %r' % ((mk, names),))
                continue
            got = rl.run_tdda_main(structure, argv_strs)
            nrun += 1
            chk.coverage['replayed_cases'] += 1
            nontriv = bool(exp[0] or exp[1]) and len(argv_strs) > 1
            chk.count_case(('run', mk, tuple(argv_strs)), nontrivial=nontriv)
            ok = (got['error'] is None and sorted(got['executed']) == [tuple(x) for x in exp[0]]
                  and len(set(got['executed'])) == len(got['executed'])
                  and sorted(got['listed']) == exp[1])
            if not ok:
                chk.violation({'kind': 'argv-run', 'argv': ' '.join(argv_strs[1:])},
                              {'argv': argv_strs, 'module': structure, 'observed': got,
                               'expected': {'executed': exp[0], 'listed': exp[1]},
                               'how': 'ReferenceTestCase.main(module=<generated>, argv=argv, exit=False)'})
            # the model's idea of the plain unittest selection must be what stock unittest does
            if nrun % 7 == 0 and not r['spec']['check']:
                stock = rl.run_stock_unittest(structure, [rl.tok2str(t) for t in r['spec']['argv']])
                plain = sel[(mk, names, False, False)][0]
                if stock['error'] is None and sorted(stock['executed']) != [tuple(x) for x in plain]:
                    chk.machinery_error('model of the plain unittest selection is wrong for %r' % argv_strs)
    chk.coverage['selection_runs'] = nrun
    chk.sample({'argv': ['prog', '-v', '-1', 'A'], 'module': '2 classes x <=2 tests, tag bits',
                'expected': 'tests of A that carry the tag themselves or through A'})
    if usable:
        r, names = usable[0]
        chk.sample({'argv': [rl.tok2str(t) for t in r['argv']], 'spec': _plain(r['spec'])})
    # 4. code -> spec: random richer runs validated as traces ---------------------------------------
    events = rich_events(rnd, 3000 if thorough else 500)
    res, rejected = trace.validate('Trace_Argv', 'Trace_Argv.cfg', events, name='Trace_Argv')
    chk.add_tlc(res)
    chk.coverage['traces_validated_against_impl'] += len(events)
    for rej in rejected:
        e = events[rej['line'] - 1]
        if 'NotWellShaped' in rej['bad']:
            chk.machinery_error('driver generated a command line outside the demanded shape: %r' % e['argv'])
            continue
        argv_strs = [rl.tok2str(t) for t in e['argv']]
        chk.violation({'kind': 'argv-run' if e['ev'] == 'Run' else 'argv-flags',
                       'argv': ' '.join(argv_strs[1:])},
                      {'event': e, 'argv': argv_strs, 'failed_clauses': rej['bad'],
                       'how': 'recorded run judged by spec/Trace_Argv.tla'})
    for e in events[:2]:
        chk.sample({'trace_event': e})
    # 4b. ordinary unittest options keep their usual meaning next to the tag options: -k PATTERN ---------------------------
    kevents, kdetail = [], {}
    for tid in range(400 if thorough else 70):
        structure = rich_module(rnd)
        pat = rnd.choice(['_1', '_2', '_3', 'test_'])
        tagsp = rnd.choice([None, '-1', '--tagged', '-0', '--istagged'])
        eff = effective(structure)
        cands = [c['cls'] for c in eff if c['tests']]
        names = rnd.sample(cands, 1) if cands and rnd.random() < 0.3 else []
        argv = ['prog'] + ([tagsp] if tagsp and tagsp.startswith('-') and not tagsp.startswith('--') else []) + \
               ['-k', pat] + ([tagsp] if tagsp and tagsp.startswith('--') else []) + names      # (-kPATTERN in one word would feed its characters to tdda's own short-flag scan)
        # (short tdda flags after '-k PATTERN' are outside the demanded command-line shape: the word ends the leading block)
        got = rl.run_tdda_main(structure, argv)
        restricted = [{'cls': c['cls'], 'ctag': c['ctag'], 'tests': [t for t in c['tests'] if pat in t['name']]} for c in eff]
        kevents.append({'tid': tid, 'ev': 'PyRun', 'module': restricted, 'names': names, 'tagged': tagsp in ('-1', '--tagged'),
                        'check': tagsp in ('-0', '--istagged'), 'executed': [list(x) for x in got['executed']], 'listed': got['listed'],
                        'error': got['error'] or 'none'})
        kdetail[tid] = {'argv': argv, 'module': structure, 'observed': got}
        chk.count_case(('k', module_key(eff), tuple(argv)), nontrivial=bool(got['executed']))
    resk, rejk = trace.validate('Trace_Argv', 'Trace_Argv.cfg', kevents, name='Trace_Argv_k')
    chk.add_tlc(resk)
    chk.coverage['traces_validated_against_impl'] += len(kevents)
    for rej in rejk:
        e = kevents[rej['line'] - 1]
        if rej['bad'] == ['NoError'] and 'SystemExit(5)' in str(e['error']):
            continue                # unittest's exit status for "no tests ran" (environment)
        chk.violation({'kind': 'argv-run', 'clause': sorted(rej['bad'])[0], 'option': '-k'},
                      dict(kdetail[e['tid']], failed_clauses=rej['bad'], expected_module_after_k=e['module'],
                           how='ReferenceTestCase.main(module=<generated>, argv=[... -k PATTERN ...]); judged by spec/Trace_Argv.tla'))
    # 4c. the entry point people use: the module run as a script that ends in ReferenceTestCase.main() (no module= argument),
    #     with class names on the command line, and with a load_tests() hook that adds a test instance itself
    sevents, sdetail = [], {}
    sroot = common.subdir('c19_scripts')
    for tid in range(240 if thorough else 48):
        structure = rich_module(rnd)
        tagsp = rnd.choice([None, '-1', '--tagged', '-0', '--istagged', '-0', '--istagged'])
        eff = effective(structure)
        hook = tid % 3 == 0
        cands = [c['cls'] for c in eff if c['tests']]
        names = rnd.sample(cands, rnd.randint(1, min(2, len(cands)))) if cands and not hook and rnd.random() < 0.6 else []
        argv = ['prog'] + ([tagsp] if tagsp else []) + names
        got = rl.run_tdda_script(os.path.join(sroot, 's%d' % tid), structure, argv, hook=hook)
        module = [dict(c) for c in eff]
        if hook:
            module.append({'cls': 'ScenarioTest', 'ctag': True, 'tests': [{'name': 'check', 'mtag': False}]})
        sevents.append({'tid': tid, 'ev': 'PyRun', 'module': module, 'names': names, 'tagged': tagsp in ('-1', '--tagged'),
                        'check': tagsp in ('-0', '--istagged'), 'executed': [list(x) for x in got['executed']], 'listed': got['listed'],
                        'error': got['error'] or 'none'})
        sdetail[tid] = {'argv': argv, 'module': structure, 'load_tests_hook': hook, 'observed': got}
        chk.count_case(('script', module_key(eff), tuple(argv), hook), nontrivial=bool(got['executed'] or got['listed']))
    ress, rejs = trace.validate('Trace_Argv', 'Trace_Argv.cfg', sevents, name='Trace_Argv_script')
    chk.add_tlc(ress)
    chk.coverage['traces_validated_against_impl'] += len(sevents)
    for rej in rejs:
        e = sevents[rej['line'] - 1]
        chk.violation({'kind': 'argv-run', 'clause': sorted(rej['bad'])[0], 'entry': 'script'},
                      dict(sdetail[e['tid']], failed_clauses=rej['bad'],
                           how='python <generated script ending in ReferenceTestCase.main()> <argv>; judged by spec/Trace_Argv.tla'))
    # 5. the pytest entry point: same specification, real `python -m pytest` runs --------------------------------
    pytest_runs(chk, rnd, r2.rows, 140 if not thorough else 1200, 80 if not thorough else 600)
    chk.coverage['rule'] = (
        'argv: every sequence of <= N tokens over the 22-token vocabulary of MC_Argv (TLC case table), '
        'non-trivial = well-shaped with at least one option; runs: (argv, module) pairs with a non-empty '
        'expected executed or listed set; traces: random modules (<= 4 classes, inheritance) x random '
        'well-shaped command lines, each recorded run judged by Trace_Argv')
    chk.coverage['exhaustive'] = True
    chk.assume('command lines are well-shaped in the sense of WellShaped (Argv.tla / DESIGN Appendix A): '
               'each tdda option once, combined short flags before long options and names, --write followed '
               'only by kinds')
    chk.assume('naming an individual untagged method, or a subclass of a class-tagged class, is not demanded')
    chk.assume("unittest's own option parser and loader are trusted (environment)")


def pytest_runs(chk, rnd, sel_rows, ntable, nrich):
    import os
    from concurrent.futures import ThreadPoolExecutor
    from harness import pytest_lib as pl
    root = common.subdir('pytest_tags')
    tasks = []
    rows = sorted(sel_rows, key=lambda r: json.dumps(r, sort_keys=True))
    for r in (rows if ntable >= len(rows) else rnd.sample(rows, ntable)):
        structure = [{'cls': 'Test' + c['cls'], 'ctag': c['ctag'], 'tests': sorted(c['tests'], key=lambda t: t['name'])}
                     for c in sorted(r['module'], key=lambda c: c['cls'])]
        names = ['Test' + n for n in sorted(r['names'])]
        if any(not c['tests'] for c in structure if c['cls'] in names):
            continue            # pytest: a node id that collects nothing is a usage error (environment)
        tasks.append((structure, [], names, r['tagged'], r['check']))
    for _ in range(nrich):
        structure = rich_module(rnd)
        functions = [{'name': 'test_f%d' % k, 'mtag': rnd.random() < 0.4} for k in range(1, 3) if rnd.random() < 0.5]
        eff = {c['cls']: c for c in effective(structure)}
        cands = [c for c in eff if eff[c]['tests']] + [f['name'] for f in functions]
        names = rnd.sample(cands, rnd.randint(1, min(2, len(cands)))) if cands and rnd.random() < 0.4 else []
        tasks.append((structure, functions, names, rnd.random() < 0.6, rnd.random() < 0.35))

    def one(i):
        structure, functions, names, tagged, check = tasks[i]
        return pl.tag_run(os.path.join(root, 'p%d' % i), structure, functions, names, tagged, check,
                          extra=(['-v'] if i % 5 == 0 else ['-x'] if i % 7 == 0 else []), twin=twin_of(i))

    def twin_of(i):
        # a second module with classes of the same names (no functions, no node ids: plain whole-project runs)
        return i % 4 == 1 and not tasks[i][1] and not tasks[i][2]
    with ThreadPoolExecutor(14) as ex:
        results = list(ex.map(one, range(len(tasks))))
    events = []
    for tid, ((structure, functions, names, tagged, check), got) in enumerate(zip(tasks, results)):
        module = effective(structure) + [{'cls': 'fn_' + f['name'], 'ctag': False, 'tests': [{'name': f['name'], 'mtag': f['mtag']}]}
                                          for f in functions]
        fnames = {f['name'] for f in functions}
        if twin_of(tid):
            module = module + [dict(c, cls=c['cls'] + '_twin') for c in effective(structure)]
        events.append({'tid': tid, 'ev': 'PyRun', 'module': module, 'names': [('fn_' + n) if n in fnames else n for n in names],
                       'tagged': bool(tagged), 'check': bool(check), 'executed': got['executed'], 'listed': got['listed'],
                       'error': got['error'], 'argv': [rl.str2tok(a) for a in ['pytest'] + got['argv']]})
        chk.count_case(('pytest', module_key(effective(structure)), tuple(names), tagged, check), nontrivial=bool(got['executed'] or got['listed']))
    res, rejected = trace.validate('Trace_Argv', 'Trace_Argv.cfg', events, name='Trace_Argv_pytest')
    chk.add_tlc(res)
    chk.coverage['traces_validated_against_impl'] += len(events)
    chk.coverage['pytest_runs'] = len(events)
    for rej in rejected:
        e = events[rej['line'] - 1]
        if 'NotWellShaped' in rej['bad']:
            chk.machinery_error('pytest driver named a class the module lacks: %r' % e['names'])
            continue
        structure, functions, names, tagged, check = tasks[e['tid']]
        chk.violation({'kind': 'pytest-run', 'clause': sorted(rej['bad'])[0], 'tagged': tagged, 'check': check},
                      {'module': structure, 'functions': functions, 'pytest_args': results[e['tid']]['argv'], 'observed':
                       {'executed': e['executed'], 'listed': e['listed'], 'error': e['error']}, 'failed_clauses': rej['bad'],
                       'how': 'python -m pytest on a generated project whose conftest.py imports tdda.referencetest.pytestconfig; '
                              'judged by spec/Trace_Argv.tla (PyRun)'})
    if events:
        chk.sample({'pytest_event': events[0]})
    import shutil
    shutil.rmtree(root, ignore_errors=True)


SHORT_EXTRA = ['v', 'q', 'f', 'b']


def rich_argv(rnd, classes):
    """A well-shaped command line from a richer vocabulary than the model's exhaustive one."""
    tagged_sp = rnd.choice([None, None, 's', 'l'])
    check_sp = rnd.choice([None, None, None, 's', 'l'])
    all_sp = rnd.choice([None, None, None, 's', 'l1', 'l2'])
    quiet_sp = rnd.choice([None, None, None, '-wquiet', '--wquiet'])
    write_sp = rnd.choice([None, None, None, '-w', '--w', '--write'])
    if write_sp:
        all_sp = None
    chars = []
    if tagged_sp == 's':
        chars.append('1')
    if check_sp == 's':
        chars.append('0')
    if all_sp == 's':
        chars.append('W')
    extra = [c for c in SHORT_EXTRA if rnd.random() < 0.3]
    if 'v' in extra and 'q' in extra:
        extra.remove('q')
    # distribute characters over short tokens; tokens containing tdda chars come first anyway because
    # all short tokens precede long ones
    pool = chars + extra
    rnd.shuffle(pool)
    shorts = []
    while pool:
        k = rnd.randint(1, len(pool))
        shorts.append('-' + ''.join(pool[:k]))
        pool = pool[k:]
    # a pure-unittest short token may also come after the long options
    late = []
    if shorts and rnd.random() < 0.3:
        cand = [s for s in shorts if not set(s) & set('W10')]
        if cand:
            s = rnd.choice(cand)
            shorts.remove(s)
            late.append(s)
    longs = []
    if tagged_sp == 'l':
        longs.append('--tagged')
    if check_sp == 'l':
        longs.append('--istagged')
    if all_sp == 'l1':
        longs.append('--W')
    if all_sp == 'l2':
        longs.append('--write-all')
    if quiet_sp:
        longs.append(quiet_sp)
    longs += late
    rnd.shuffle(longs)
    names = []
    if not write_sp and classes and rnd.random() < 0.5:
        names = rnd.sample(classes, rnd.randint(1, min(2, len(classes))))
    back = []
    if write_sp:
        kinds = rnd.sample(['table', 'graph', 'csv', 'k1', 'table,graph', 'a,b,c', 'table,', 'k1,,csv'], rnd.randint(1, 3))
        back = [write_sp] + kinds
    return ['prog'] + shorts + longs + names + back


def rich_module(rnd):
    ncls = rnd.randint(1, 4)
    names = ['TestA', 'TestB', 'TestC', 'TestD'][:ncls]
    structure = []
    for i, c in enumerate(names):
        parent = None
        if i > 0 and rnd.random() < 0.3:
            cand = [p for p in structure if not p['ctag']]
            if cand:
                parent = rnd.choice(cand)
        tests = [{'name': 'test_%d' % k, 'mtag': rnd.random() < 0.4}
                 for k in range(1, 4) if rnd.random() < 0.6]
        c_rec = {'cls': c, 'ctag': rnd.random() < 0.25, 'tests': tests}
        if rnd.random() < 0.25:
            c_rec['plain'] = True         # not a ReferenceTestCase: selection and listing are about tags, not base classes
        if parent:
            c_rec['parent'] = parent['cls']
        structure.append(c_rec)
    return structure


def effective(structure):
    """Module as the model sees it: inherited tests are tests of the subclass too."""
    by = {c['cls']: c for c in structure}
    out = []
    for c in structure:
        tests = {t['name']: t for t in c['tests']}
        p = c.get('parent')
        while p:
            for t in by[p]['tests']:
                tests.setdefault(t['name'], t)
            p = by[p].get('parent')
        out.append({'cls': c['cls'], 'ctag': c['ctag'],
                    'tests': [tests[k] for k in sorted(tests)]})
    return out


def rich_events(rnd, n):
    events = []
    for tid in range(n):
        structure = rich_module(rnd)
        argv = rich_argv(rnd, [c['cls'] for c in structure])
        if tid % 3 == 0:
            real = rl.real_flags(argv)
            events.append({'tid': tid, 'ev': 'Flags', 'argv': [rl.str2tok(a) for a in argv],
                           'out': real['argv'], 'regen': real['regen'], 'tagged': real['tagged'],
                           'check': real['check'], 'quiet': real['quiet'],
                           'kinds': [rl.str2tok(k) for k in real['kinds']], 'raised': real['raised']})
        else:
            got = rl.run_tdda_main(structure, argv)
            events.append({'tid': tid, 'ev': 'Run', 'argv': [rl.str2tok(a) for a in argv],
                           'module': effective(structure),
                           'executed': [list(x) for x in got['executed']],
                           'listed': got['listed'], 'error': got['error'] or 'none'})
    return events


def replay(path):
    w = json.load(open(path))
    for wit in w['witnesses']:
        argv = wit['argv']
        print('argv:', argv)
        if 'module' in wit:
            print('observed:', rl.run_tdda_main(wit['module'], argv))
        else:
            print('observed:', rl.real_flags(argv))
        print('expected:', wit.get('expected') or wit.get('failed_clauses'))
    return 0
