"""C11 - gentest: for a repeatable command the generated test exists, compiles and passes. (DESIGN 5/C11)"""
import json
import os
import random

from harness import common, tlc
from harness import gentest_run as gr

CLAUSES = {'NoClobber', 'ScriptExists', 'ScriptCompiles', 'ScriptPasses', 'EveryGeneratedTestPasses'}


def datelike_replay(chk, rows):
    """DateLike case table on the real is_date_like (numeric and month-name spellings)."""
    from tdda.referencetest.gentest import is_date_like
    months = ['jan', 'feb', 'mar', 'apr', 'may', 'jun', 'jul', 'aug', 'sep', 'oct', 'nov', 'dec']
    n = 0
    for r in rows:
        n1, n2, n3 = r['n']
        for sep in ('/', '-', '.'):
            line = 'x %d%s%d%s%d y' % (n1, sep, n2, sep, n3)
            for text in (line, '%02d%s%02d%s%d' % (n1, sep, n2, sep, n3)):
                n += 1
                try:
                    got = 'date' if is_date_like(text) else 'none'
                except Exception as ex:
                    got = 'raises %s' % type(ex).__name__
                chk.coverage['replayed_cases'] += 1
                if got.startswith('raises'):
                    chk.violation({'kind': 'datelike', 'clause': 'NeverRaises', 'error': got.split(' ')[1]},
                                  {'line': text, 'observed': got, 'how': 'tdda.referencetest.gentest.is_date_like(line)'})
        if r['named'] != 'n/a':
            for text in ('%d %s %d' % (n1, months[n2 - 1], n3), '%s %d, %d' % (months[n2 - 1].capitalize(), n1, n3)):
                n += 1
                try:
                    is_date_like(text)
                except Exception as ex:
                    chk.violation({'kind': 'datelike', 'clause': 'NeverRaises', 'error': type(ex).__name__},
                                  {'line': text, 'how': 'tdda.referencetest.gentest.is_date_like(line)'})
                chk.coverage['replayed_cases'] += 1
    return n


def run(chk):
    thorough = chk.tier == 'thorough'
    r1 = tlc.run('MC_Gentest', 'MC_Gentest.cfg', name='MC_Gentest')
    chk.add_tlc(r1)
    if r1.violated:
        chk.machinery_error('MC_Gentest violates %s' % r1.violated)
    r2 = tlc.run('MC_DateLike', 'MC_DateLike.cfg', name='MC_DateLike')
    chk.add_tlc(r2)
    if r2.violated:
        chk.machinery_error('MC_DateLike violates %s' % r2.violated)
    if thorough:
        r3 = tlc.run('MC_DateLike', 'MC_DateLike_pinned.cfg', name='MC_DateLike_pinned')
        chk.add_tlc(r3)
        chk.coverage['pinned_datelike_model_raises'] = 'NeverRaises' in r3.violated
    chk.coverage['datelike_lines'] = datelike_replay(chk, r2.rows if thorough else random.Random(chk.seed).sample(r2.rows, 1500))
    gr.run_sessions(chk, chk.seed + 11, 400 if thorough else 56, 0, CLAUSES, 'c11')
    chk.coverage['rule'] = ('repeatable commands: stdout / stderr texts over plain, date-like, time-like, version-like, path-like, host / '
                            'user / cwd tokens, quotes, backslashes, regex metacharacters, unicode; 0..2 output files (text, binary) '
                            'named, by directory or by glob; exit 0 / 3; iterations 1..3; --no-stdout / --no-stderr / --non-zero-exit; '
                            'relative / absolute script names; pre-existing unrelated files, stale script and reference directory, '
                            'same-named outputs; each session: directory snapshot, real tdda gentest, py_compile, run of the script')
    chk.coverage['exhaustive'] = False
    chk.assume('commands are repeatable by construction; a non-zero exit status without --non-zero-exit must refuse to generate')


def replay(path):
    print(json.dumps(json.load(open(path)), indent=1, ensure_ascii=False)[:6000])
    return 0
