"""C10 - references are rewritten only on request, and a regenerated reference passes. (DESIGN 5/C10)

Model: spec/RefTest.tla (regeneration table + reference files; OnlyOnRequest, NormalModeFrame,
ExactlySelected, RegenWritesActual, RegenThenPass) and spec/Argv.tla (every spelling of the options).
Spec -> code: every (state, action) pair of MC_RefTest_steps is replayed on the real ReferenceTest
for each assertion type; the argv case table is replayed on the real scanner.
Code -> spec: random long sessions (unicode, CR/LF, no final newline, parquet/CSV frames) are recorded
and validated by Trace_RefTest, which reconstructs the regeneration table itself.
"""
import json
import os
import random
import re

from harness import common, tlaps, tlc, trace
from harness import reftest_lib as rl
from harness import reftest_session as rs
from checks import c19

# C10 demands the outcome only where it speaks of it: a regenerated reference passes.  How a failing
# comparison is reported (assertion failure vs internal error) belongs to C04/C05.
OUTCOME_OK = {'pass': {'ok'}, 'regenerated': {'ok'}, 'fail': {'fail', 'error'}, 'noref': {'fail', 'error'}}


def replay_steps(chk, rows, rnd, thorough):
    """Replay MC_RefTest_steps rows: set up the pre-state for real, run the action, compare."""
    root = common.subdir('c10_steps')
    types_single = rs.SINGLE_TYPES
    n = 0
    for r in rows:
        act = r['action']
        if act['act'] == 'SetRegeneration':
            variants = [None]
        elif act['type'] == 'pair':
            variants = ['textfiles']
        else:
            variants = types_single if thorough else [rnd.choice(types_single), rnd.choice(types_single[:3])]
        for ty in variants:
            pty = ty or 'string'
            sess = rs.Session(os.path.join(root, 's%d' % n), {'p1': pty, 'p2': pty}, ['x', 'y'],
                              variant=rnd.randint(0, 1))
            n += 1
            try:
                sess.set_state(r['pre_regen'], r['pre_refs'])
                if act['act'] == 'SetRegeneration':
                    before = sess.stat()
                    sess.set_regeneration(act['kind'], act['flag'])
                    after = sess.stat()
                    obs = {'outcome': 'ok', 'wrote': sorted(p for p in before if before[p] != after[p]),
                           'refs': sess.abstract_refs()}
                    exp_out = {'ok'}
                else:
                    out, wrote, detail = sess.do_assert(pty, act['kind'], act['paths'], act['actual'])
                    obs = {'outcome': out, 'wrote': wrote, 'refs': sess.abstract_refs(), 'detail': detail}
                    exp_out = OUTCOME_OK[act['outcome']]
                # the regeneration table itself (state of the anchor)
                table = {rs.kabs(k): ('T' if v else 'F')
                         for k, v in sess.RT.regenerate.items()}
                exp_table = {k: v for k, v in r['post_regen'].items() if v != 'unset'}
            finally:
                sess.close()
            chk.coverage['replayed_cases'] += 1
            chk.count_case(('step', json.dumps(r, sort_keys=True), ty), nontrivial=act['act'] != 'SetRegeneration')
            bad = []
            if obs['refs'] != r['post_refs']:
                bad.append('NormalModeLeavesReferencesAlone' if not act.get('wrote') else 'RegenerationWritesTheActual')
            if sorted(obs['wrote']) != sorted(act.get('wrote', [])):
                bad.append('RegenerateWhenSelected' if set(obs['wrote']) < set(act.get('wrote', []))
                           else 'WriteOnlyOnRequest')
            if obs['outcome'] not in exp_out:
                bad.append('Outcome_' + act.get('outcome', 'ok'))
            if table != exp_table and not bad:
                # the table is internal state: the property does not state it -> drift, not a violation
                chk.drift_case({'what': 'regeneration table differs from the model after the action',
                                'action': act, 'observed_table': table, 'model_table': exp_table})
            if bad:
                chk.violation(signature(ty, act, bad, obs),
                              {'type': ty, 'pre_regen': r['pre_regen'], 'pre_refs': r['pre_refs'],
                               'action': act, 'expected_refs': r['post_refs'], 'observed': obs,
                               'failed_clauses': bad, 'how': 'harness.reftest_session.Session (real ReferenceTest, real files)'})
    return n


def signature(ty, act, bad, obs):
    sig = {'kind': 'reftest-session', 'clause': sorted(bad)[0], 'type': ty or 'none'}
    d = obs.get('detail', '') or ''
    if obs.get('outcome') == 'error' and d:
        sig['error'] = d.split(':')[0]
    m = re.search(r'Wrong column type for field \S+ actual: ([^;]+); expected: ([^)\s]+)', d)
    if m:
        sig['dtype_change'] = '%s->%s' % (m.group(1), m.group(2))
    return sig


def record_sessions(rnd, nsessions, maxlen, root):
    """Random long sessions on the real code, recorded as trace events."""
    events = []
    meta = {}
    kinds = ['k0', 'k1', 'k2', 'k3']
    for tid in range(nsessions):
        # every session uses one file per type (two for lists of text files)
        ptypes = {'p0': 'string', 'p1': 'textfile', 'p2': 'textfiles', 'p3': 'textfiles',
                  'p4': 'binary', 'p5': 'dataframe', 'p6': 'ondisk', 'p7': 'csvframe', 'p8': 'csv2pq', 'p9': 'csvlegacy'}
        cnames = ['c%d' % i for i in range(20)]
        sess = rs.Session(os.path.join(root, 't%d' % tid), ptypes, cnames, variant=rnd.randint(0, 3))
        try:
            # initial reference directory
            init = {}
            for p, ty in ptypes.items():
                if rnd.random() < 0.6:
                    npool = len(sess.pools[ty])
                    init[p] = 'c%d' % rnd.randrange(npool)
                else:
                    init[p] = 'Absent'
            sess.set_state({}, init)
            seq = 0
            events.append({'tid': tid, 'seq': seq, 'ev': 'Init', 'refs': sess.abstract_refs()})
            pending_recheck = None
            if tid % 4 == 3:
                # a focused history on one reference, all within a moment: check, regenerate with other content (of the
                # same size where the pool has one), check the new content (passes), check the old one (fails)
                sess.ageing = False
                ty = rnd.choice(['string', 'textfile', 'binary', 'dataframe', 'ondisk'])
                paths = [p for p, t in ptypes.items() if t == ty]
                npool = len(sess.pools[ty])
                a_ = rnd.randrange(npool)
                same = [j for j in range(npool) if j != a_ and ty == 'binary' and len(sess.pools[ty][j][0]) == len(sess.pools[ty][a_][0])]
                b_ = rnd.choice(same) if same else rnd.choice([j for j in range(npool) if j != a_])
                def step_(name, **kw_):
                    nonlocal seq
                    seq += 1
                    events.append(dict({'tid': tid, 'seq': seq, 'ev': name}, **kw_))
                def assert_(cid):
                    out_, wrote_, detail_ = sess.do_assert(ty, 'NoKind', paths, ['c%d' % cid])
                    step_('Assert', type=ty, kind='NoKind', paths=paths, actual=['c%d' % cid], outcome=out_, wrote=wrote_,
                          refs=sess.abstract_refs(), detail=detail_, options=[])
                assert_(a_)
                sess.set_regeneration('NoKind', True)
                step_('SetRegeneration', kind='NoKind', flag=True)
                assert_(b_)
                sess.set_regeneration('NoKind', False)
                step_('SetRegeneration', kind='NoKind', flag=False)
                assert_(b_)
                assert_(a_)
                continue
            for _ in range(rnd.randint(3, maxlen)):
                seq += 1
                if pending_recheck and rnd.random() < 0.7:
                    # switch regeneration off for that kind (or altogether), then repeat the assertion
                    ty, kind, paths, actual, opts = pending_recheck
                    pending_recheck = None
                    if rnd.random() < 0.5:
                        sess.set_regeneration(kind, False)
                        events.append({'tid': tid, 'seq': seq, 'ev': 'SetRegeneration', 'kind': kind, 'flag': False})
                    else:
                        for k in ['NoKind'] + kinds:
                            sess.set_regeneration(k, False)
                            events.append({'tid': tid, 'seq': seq, 'ev': 'SetRegeneration', 'kind': k, 'flag': False})
                            seq += 1
                    seq += 1
                    out, wrote, detail = sess.do_assert(ty, kind, paths, actual, opts)
                    events.append({'tid': tid, 'seq': seq, 'ev': 'Assert', 'type': ty, 'kind': kind, 'paths': paths,
                                   'actual': actual, 'outcome': out, 'wrote': wrote, 'refs': sess.abstract_refs(),
                                   'detail': detail, 'options': sorted(opts)})
                    continue
                if rnd.random() < 0.35:
                    kind = rnd.choice(['NoKind'] + kinds)
                    flag = rnd.random() < 0.65
                    sess.set_regeneration(kind, flag)
                    events.append({'tid': tid, 'seq': seq, 'ev': 'SetRegeneration', 'kind': kind, 'flag': flag})
                    continue
                ty = rnd.choice(['string', 'textfile', 'textfiles', 'binary', 'dataframe', 'ondisk', 'csvframe', 'csv2pq', 'csvlegacy'])
                kind = rnd.choice(['NoKind'] + kinds)
                paths = [p for p, t in ptypes.items() if t == ty]
                if ty == 'textfiles' and rnd.random() < 0.5:
                    paths = paths[::-1]
                npool = len(sess.pools[ty])
                actual = ['c%d' % rnd.randrange(npool) for _ in paths]
                # per-line stripping options of the text assertions: they concern the comparison, never what is written
                opts = {}
                if ty in ('string', 'textfile', 'textfiles') and rnd.random() < 0.35:
                    opts = rnd.choice([{'rstrip': True}, {'lstrip': True}, {'lstrip': True, 'rstrip': True}])
                out, wrote, detail = sess.do_assert(ty, kind, paths, actual, opts)
                events.append({'tid': tid, 'seq': seq, 'ev': 'Assert', 'type': ty, 'kind': kind, 'paths': paths,
                               'actual': actual, 'outcome': out, 'wrote': wrote, 'refs': sess.abstract_refs(),
                               'detail': detail, 'options': sorted(opts)})
                if wrote:
                    pending_recheck = (ty, kind, paths, actual, opts)
        finally:
            sess.close()
    return events


def validate_sessions(chk, events, name):
    res, rejected = trace.validate('Trace_RefTest', 'Trace_RefTest.cfg', events, name=name, workers=4)
    # sessions stop at their first rejected line: account for the unconsumed remainder
    nsess = len({e['tid'] for e in events})
    if res.error and 'not fully consumed' in (res.error or ''):
        skipped = 0
        for rej in rejected:
            i = rej['line']          # 1-based line of the rejected event
            tid = events[i - 1]['tid']
            # the rejected state itself violates the CONSTRAINT and is not counted either
            skipped += 1 + sum(1 for e in events[i:] if e['tid'] == tid)
        done = [r for r in res.rows if 'consumed' in r]
        if done and done[-1]['consumed'] == len(events) - skipped:
            res.ok, res.error = True, None
    chk.add_tlc(res)
    chk.coverage['traces_validated_against_impl'] += nsess
    chk.coverage['trace_events'] = chk.coverage.get('trace_events', 0) + len(events)
    for rej in rejected:
        e = events[rej['line'] - 1]
        obs = {'outcome': e.get('outcome'), 'detail': e.get('detail', '')}
        chk.violation(signature(e.get('type'), e, rej['bad'], obs),
                      {'tid': e['tid'], 'session_prefix': [x for x in events[:rej['line']] if x['tid'] == e['tid']][-12:],
                       'failed_clauses': rej['bad'],
                       'how': 'recorded session judged by spec/Trace_RefTest.tla (regeneration table '
                              'reconstructed by the specification)'})
    return rejected


def run(chk):
    rnd = random.Random(chk.seed)
    thorough = chk.tier == 'thorough'
    # 1. design model ---------------------------------------------------------------------------
    r1 = tlc.run('MC_RefTest', 'MC_RefTest.cfg', name='MC_RefTest')
    chk.add_tlc(r1)
    if r1.violated:
        chk.machinery_error('MC_RefTest violates %s' % r1.violated)
    r2 = tlc.run('MC_RefTest', 'MC_RefTest_steps.cfg', name='MC_RefTest_steps')
    chk.add_tlc(r2)
    if r2.violated:
        chk.machinery_error('MC_RefTest_steps violates %s' % r2.violated)
    # the same properties for ARBITRARY constants (any number of kinds, files, contents, types): TLAPS
    tlaps.record(chk, 'RefTest_proofs', ['Spec => NormalModeFrame', 'Spec => OnlyOnRequest', 'Spec => ExactlySelected',
                                          'Spec => SetRegenerationFrame', 'Spec => []RegenWritesActual', 'Spec => []RegenThenPass'])
    rows = sorted(r2.rows, key=lambda r: json.dumps(r, sort_keys=True))
    if len(rows) < 5000:
        chk.machinery_error('vacuity: only %d step rows' % len(rows))
    # 2. spec -> code: every transition ------------------------------------------------------------
    if not thorough:
        rnd.shuffle(rows)
        rows = rows[:2500]
    n = replay_steps(chk, rows, rnd, thorough)
    chk.coverage['step_rows'] = len(rows)
    chk.coverage['step_replays'] = n
    chk.sample({'step_row': rows[0]})
    # 3. argv spellings -> regeneration table (Argv.tla) --------------------------------------------
    cfg = ('CONSTANTS\n  Defects = {}\n  MaxArgs = %d\n  EmitRows = TRUE\nINIT Init\nNEXT Next\n'
           'INVARIANT ImplIsSpec\nINVARIANT EmitCase\nCHECK_DEADLOCK FALSE\n' % (4 if thorough else 3))
    r3 = tlc.run('MC_Argv', cfg_text=cfg, name='MC_Argv', timeout=1500)
    chk.add_tlc(r3)
    if r3.violated:
        chk.machinery_error('MC_Argv violates %s' % r3.violated)
    nws = 0
    for r in r3.rows:
        if not r['ws']:
            continue
        nws += 1
        argv_strs = [rl.tok2str(t) for t in r['argv']]
        real = rl.real_flags(argv_strs)
        chk.coverage['replayed_cases'] += 1
        want_kinds = sorted(rl.tok2str(k) for k in r['spec']['kinds'])
        interesting = r['spec']['regen'] or bool(want_kinds)
        chk.count_case(('argv', tuple(argv_strs)), nontrivial=interesting)
        if real['raised'] != r['spec']['raised'] or (not real['raised'] and (
                real['regen'] != r['spec']['regen'] or real['kinds'] != want_kinds)):
            chk.violation({'kind': 'argv-regeneration', 'clause': 'SpellingSelectsExactlyTheNamedKinds',
                           'argv': ' '.join(argv_strs[1:])},
                          {'argv': argv_strs, 'observed': real, 'expected': c19._plain(r['spec']),
                           'how': '_set_flags_from_argv(argv); ReferenceTest.regenerate'})
    chk.coverage['argv_cases_well_shaped'] = nws
    # pytest spelling: ref() fixture with a fake request.config
    npy = replay_pytest_options(chk, rnd, 400 if thorough else 80)
    chk.coverage['pytest_option_cases'] = npy
    # 4. code -> spec: recorded sessions -----------------------------------------------------------------
    root = common.subdir('c10_sessions')
    events = record_sessions(rnd, 500 if thorough else 120, 30 if thorough else 18, root)
    validate_sessions(chk, events, 'sessions')
    chk.sample({'session_events': events[:5]})
    # 4b. reference data locations: class-level defaults, per-instance tables, relative names (RefLoc.tla) ------------
    location_sessions(chk, rnd, 600 if thorough else 120)
    # 5. the pytest entry point: real `python -m pytest` processes with --write-all / --write kinds... --------------
    pytest_sessions(chk, rnd, 240 if thorough else 36)
    # binding demonstration (thorough): corrupt one field / drop one event -> must be rejected
    if thorough:
        demonstrate_binding(chk, events)
    chk.coverage['rule'] = (
        'steps: every (regeneration table, reference directory, action) triple of MC_RefTest_steps x assertion '
        'type, non-trivial = assertions (not table updates); argv: well-shaped command lines that request '
        'regeneration; sessions: random histories of 3..N calls over 7 assertion types, 4 kinds, 10 contents')
    chk.coverage['exhaustive'] = thorough
    chk.assume('content ids are equivalence classes under what the assertion type can distinguish '
               '(same lines / same bytes / equal frames); text references are read back with newline=""')
    chk.assume('a write is observed as a change of (inode, mtime_ns, size, sha1) after ageing the file')
    chk.assume('outcome of a normal-mode assertion whose reference is missing is not demanded '
               '(failure or error), only that nothing is created')


def location_sessions(chk, rnd, n):
    from harness import refloc_session as rls
    r = tlc.run('MC_RefLoc', 'MC_RefLoc.cfg', name='MC_RefLoc')
    chk.add_tlc(r)
    if r.violated:
        chk.machinery_error('MC_RefLoc violates %s' % r.violated)
    root = common.subdir('c10_locations')
    events, details = rls.record_sessions(rnd, n, root, tid0=200000)
    clean = [{k: v for k, v in e.items() if k != 'detail'} for e in events]
    res, rejected = trace.validate('Trace_RefLoc', 'Trace_RefLoc.cfg', clean, name='location_sessions', workers=4)
    if res.error and 'not fully consumed' in (res.error or ''):
        skipped = 0
        for rej in rejected:
            i = rej['line']
            tid = events[i - 1]['tid']
            skipped += sum(1 for e in events[i:] if e['tid'] == tid)
        done = [x for x in res.rows if 'consumed' in x]
        if done and done[-1]['consumed'] >= len(events) - skipped - len(rejected):
            res.ok, res.error = True, None
    chk.add_tlc(res)
    chk.coverage['traces_validated_against_impl'] += n
    chk.coverage['location_session_events'] = len(events)
    for rej in rejected:
        e = events[rej['line'] - 1]
        for clause in rej['bad']:
            sig = {'kind': 'reference-locations', 'clause': clause}
            if e.get('outcome') == 'error':
                sig['error'] = e.get('detail', '').split(':')[0]
            chk.violation(sig, {'event': e, 'session_prefix': [x for x in details[e['tid']] if x['seq'] <= e['seq']][-10:],
                                'how': 'ReferenceTest.set_default_data_location / set_data_location / assertStringCorrect with a relative '
                                       'reference name; judged by spec/Trace_RefLoc.tla (location tables reconstructed by the specification)'})
    for tid, log in list(details.items())[:300]:
        chk.count_case(('locations', tid, len(log)), nontrivial=any(x['ev'] == 'Assert' for x in log))
    if events:
        chk.sample({'location_session': clean[:6]})


def pytest_sessions(chk, rnd, n):
    """Projects whose tests assert through the `ref` fixture; each pytest process is one Trace_RefTest session."""
    import shutil
    from concurrent.futures import ThreadPoolExecutor
    from harness import pytest_lib as pl
    root = common.subdir('c10_pytest')
    seeds = [rnd.randrange(10**9) for _ in range(n)]

    def one(i):
        return pl.regen_session(random.Random(seeds[i]), os.path.join(root, 'proj%d' % i), 100000 + 10 * i)
    with ThreadPoolExecutor(14) as ex:
        results = list(ex.map(one, range(n)))
    events, details = [], {}
    for evs, det in results:
        events.extend(evs)
        details.update(det)
    rejected = validate_sessions(chk, events, 'pytest_sessions')
    chk.coverage['pytest_processes'] = len(details)
    for tid, d in sorted(details.items()):
        chk.count_case(('pytest-session', tid, json.dumps(d['pytest_args'])), nontrivial=len(d['pytest_args']) > 1)
        if d['executed_steps'] != d['expected_steps']:
            chk.violation({'kind': 'pytest-session', 'clause': 'EverySelectedTestRuns'},
                          dict(d, how='python -m pytest on a generated project; the tests record their own assertions'))
    if events:
        chk.sample({'pytest_session_events': events[:4], 'pytest_args': details[events[0]['tid']]['pytest_args']})
    shutil.rmtree(root, ignore_errors=True)


def replay_pytest_options(chk, rnd, n):
    from tdda.referencetest import referencepytest
    from tdda.referencetest.referencetest import ReferenceTest

    class Cfg:
        def __init__(self, opts):
            self.opts = opts

        def getoption(self, name, default=None):
            return self.opts.get(name, default)

    class Req:
        def __init__(self, opts):
            self.config = Cfg(opts)
    cnt = 0
    kinds_pool = ['table', 'graph', 'csv', 'k1']
    for i in range(n):
        write_all = rnd.random() < 0.3
        write = None
        if rnd.random() < 0.6:
            ks = rnd.sample(kinds_pool, rnd.randint(1, 3))
            write = [','.join(ks)] if rnd.random() < 0.5 else ks
            if rnd.random() < 0.3:
                write = write[:-1] + [write[-1] + ',']          # a trailing comma names an empty kind, not every kind
        opts = {'--wquiet': rnd.random() < 0.3, '--write-all': write_all, '--write': write,
                '--tagged': False, '--istagged': False}
        rl.reset_reftest_state()
        try:
            referencepytest.ref(Req(opts))
            table = dict(ReferenceTest.regenerate)
        finally:
            rl.reset_reftest_state()
        cnt += 1
        chk.coverage['replayed_cases'] += 1
        chk.count_case(('pytest', json.dumps(opts, sort_keys=True)), nontrivial=write_all or bool(write))
        # the documented meaning: --write-all = every kind; --write k... = exactly those kinds
        # (--write-all together with --write: write-all wins; only 'all' is demanded then)
        want_all = write_all
        want_kinds = set()
        if write and not write_all:
            for w in write:
                want_kinds |= set(w.split(','))
        got_all = table.get(None) is True
        got_kinds = {k for k, v in table.items() if k is not None and v}
        if got_all != want_all or (not want_all and got_kinds != want_kinds):
            chk.violation({'kind': 'argv-regeneration', 'clause': 'SpellingSelectsExactlyTheNamedKinds',
                           'argv': 'pytest ' + json.dumps(opts, sort_keys=True)},
                          {'options': opts, 'observed_table': {str(k): v for k, v in table.items()},
                           'how': 'tdda.referencetest.referencepytest.ref(request)'})
    return cnt


def demonstrate_binding(chk, events):
    """Corrupt accepted sessions: each corruption must be rejected by the trace spec."""
    import copy
    bytid = {}
    for e in events:
        bytid.setdefault(e['tid'], []).append(e)
    demos = []
    # (a) flip one recorded reference content after a normal-mode assertion
    for tid, evs in bytid.items():
        idx = [i for i, e in enumerate(evs) if e['ev'] == 'Assert' and not e['wrote'] and e['refs'][e['paths'][0]] != 'Absent']
        if idx and len(demos) < 1:
            c = copy.deepcopy(evs)
            p = c[idx[0]]['paths'][0]
            c[idx[0]]['refs'][p] = 'c9' if c[idx[0]]['refs'][p] != 'c9' else 'c8'
            demos.append(('corrupt-field', c))
    # (b) drop a SetRegeneration(.., True) that was followed by a regenerating assertion
    #     ... and on which that assertion's regeneration depended (an earlier request may cover the kind as well: dropping a
    #     redundant request changes nothing and is rightly accepted)
    def would_regenerate(evs_, upto, kind):
        table = {}
        for x in evs_[:upto]:
            if x['ev'] == 'SetRegeneration':
                table[x['kind']] = x['flag']
        return table[kind] if kind in table else table.get('NoKind', False)
    for tid, evs in bytid.items():
        for i, e in enumerate(evs):
            if e['ev'] == 'SetRegeneration' and e['flag']:
                without = evs[:i] + evs[i + 1:]
                js = [j for j in range(i, min(i + 2, len(without))) if without[j]['ev'] == 'Assert' and without[j]['wrote']]
                if js and not would_regenerate(without, js[0], without[js[0]]['kind']):
                    demos.append(('drop-event', copy.deepcopy(without)))
                    break
        if len(demos) >= 2:
            break
    ok = 0
    for n, (what, evs) in enumerate(demos):
        for e in evs:
            e['tid'] = 9000 + n
        res, rejected = trace.validate('Trace_RefTest', 'Trace_RefTest.cfg', evs, name='binding_%d' % n, workers=1)
        if rejected:
            ok += 1
    chk.coverage['binding_demonstration'] = {'corruptions': len(demos), 'rejected': ok}
    if demos and ok != len(demos):
        chk.machinery_error('binding demonstration: %d of %d corrupted sessions were accepted' % (len(demos) - ok, len(demos)))


def replay(path):
    w = json.load(open(path))
    print(json.dumps(w, indent=1)[:4000])
    return 0
