"""C02 - verification verdicts equal the documented meaning of each constraint. (DESIGN 5/C02)"""
import json

from harness import common, tlc
from harness import constraints_run as run_

CLAUSES = {'VerdictIsSpec', 'MissingFieldFails', 'CountsConsistent', 'TabularFormIsVerdicts', 'VerifyRaises'}


def run(chk):
    thorough = chk.tier == 'thorough'
    rows = run_.model_rows(chk, 4 if thorough else 3)
    if len(rows) < 1000:
        chk.machinery_error('vacuity: only %d columns in the case table' % len(rows))
    chk.coverage['columns'] = len(rows)
    chk.coverage['constraint_cases'] = sum(len(r['cons']) for r in rows)
    chk.coverage['demanded_cases'] = sum(1 for r in rows for c in r['cons'] if c['dem'])
    if thorough:
        run_.vacuity_run(chk)
    tot = run_.replay(chk, rows, ('verify',), thorough, chk.seed, CLAUSES, 'constraint-verdict')
    run_.report_sessions(chk, rows, 3000 if thorough else 300, chk.seed)
    r = rows[len(rows) // 2]
    chk.sample({'column': r['col'], 'constraints_in_family': len(r['cons']),
                'one_case': next(c for c in r['cons'] if c['dem'])})
    chk.coverage['rule'] = ('every column of <= N cells over the value grid of each type (real in eighths, int, bool, '
                            'date, 5 string ids, null) x the family of constraints on/inside/outside each boundary of '
                            'its own statistics x precision x epsilon in {0, 1/100, 1/4, 1/2} x type lists x '
                            'strict/sloppy x null-valued x missing field; non-trivial = non-empty column')
    chk.coverage['exhaustive'] = True
    chk.assume('numbers on the k/8 grid; epsilon 1/100 never on a boundary (DESIGN 4.1)')
    chk.assume('corners not fixed by the documentation (Demanded = FALSE in ConstraintSem.tla) are compared with '
               'the transcription only')
    chk.assume('verify_df is called with repair=False (repair is exercised by C01)')


def replay(path):
    print(json.dumps(json.load(open(path)), indent=1)[:6000])
    return 0
