"""C08 - database discovery is sound and database verification notices violating rows. (DESIGN 5/C08)

Also decides the SQLite side of C07 (SpecDiscover on the same abstract columns).
"""
import json
import math
import os
import random
import sqlite3

from harness import common, tlc, trace
from harness import constraints_lib as cl
from harness import db_lib as dbl

TEXT_ATTRS = ['plain', '', "it's", 'dq"x', 'back\\slash', 'ünï☃', '%_like', 'semi;colon', '  spaced ', 'NULL', '--c', "''", 'a\nb',
              'line\u2028sep', 'para\u2029sep', 'next\x85line', 'cafe\u0301', 'A\u030angstro\u0308m', 'caf\u00e9']      # (decomposed and composed spellings are different values)
COLNAMES = ['c', 'Value', 'col_1', 'select', 'with space', 'ünï', 'x-y']


def session_events(tid, db, table, colname, tddapath, rex, perturb_rows, events, detail):
    """perturb_rows: list of (kind, sql value). Runs the whole session; appends events."""
    def ev(name, **kw):
        e = {'tid': tid, 'ev': name, 'raised': 'none'}
        e.update(kw)
        events.append(e)
        return e
    ev('Init')
    try:
        fields, _, _ = dbl.discover_and_verify(db, table, tddapath, rex)
        ev('Discover', rex=rex)
    except Exception as ex:
        ev('Discover', rex=rex, raised='%s: %s' % (type(ex).__name__, str(ex)[:160]))
        return None
    if fields is None:
        events.pop()
        events.pop()
        return None
    detail['discovered'] = json.loads(json.dumps(fields, default=str))
    try:
        failed, n = dbl.verify(db, table, tddapath)
        ev('Verify', failed=failed)
    except BaseException as ex:
        ev('Verify', failed=[], raised='%s: %s' % (type(ex).__name__, str(ex)[:160]))
        return fields
    if callable(perturb_rows):
        perturb_rows = perturb_rows(fields)
        detail['perturbation'] = perturb_rows[:1]
    for kind, val in perturb_rows[:1]:
        try:
            cur = db.connection.cursor()
            ncols = len(cur.execute('PRAGMA table_info(%s)' % table).fetchall())
            if ncols == 2:
                cur.execute('INSERT INTO %s VALUES (?, ?)' % table, (val, 1 + cur.execute('SELECT COUNT(*) FROM %s' % table).fetchone()[0]))
            else:
                cur.execute('INSERT INTO %s VALUES (?)' % table, (val,))
            db.connection.commit()
            ev('AddRow', kind=kind)
            failed, n = dbl.verify(db, table, tddapath)
            ev('Verify', failed=failed)
        except BaseException as ex:
            ev('Verify', failed=[], raised='%s: %s' % (type(ex).__name__, str(ex)[:160]))
    return fields


def discover_only(chk, rows, rnd, n, sig_kind='db-discovery'):
    """C07 on the SQL side: SQLite tables built from abstract columns; discover_db_table must report SpecDiscover."""
    from tdda.constraints.db.constraints import discover_db_table
    root = common.subdir('db_discover')
    cnt = 0
    for r in (rows if n is None else rnd.sample(rows, min(n, len(rows)))):
        col = r['col']
        pool = rnd.randrange(len(cl.STRING_POOLS)) if col['t'] == 'string' else 0
        path = os.path.join(root, 'd%d.sqlite' % cnt)
        db = dbl.connect(path)
        sqltype = rnd.choice(dbl.SQLTYPE[col['t']])
        colname = rnd.choice(COLNAMES)
        try:
            dbl.make_table(db, 't', colname, sqltype, [dbl.sqlvalue(col['t'], v, pool) for v in col['v']], shape=('composite' if cnt % 3 == 1 else 'plain'))
            try:
                with cl.quiet():
                    cs = discover_db_table('sqlite', db, 't')
                fields = cs.to_dict()['fields'] if cs is not None else {}
            except Exception as ex:
                chk.violation({'kind': sig_kind, 'clause': 'NoError', 'error': type(ex).__name__, 'coltype': col['t']},
                              {'column': col, 'sqltype': sqltype, 'raised': '%s: %s' % (type(ex).__name__, str(ex)[:200])})
                continue
            if colname in fields:
                got = cl.abstract_discovery(fields[colname], col['t'], pool)
                for key in r['dkeys']:
                    w = sorted(r['disc'][key]) if key == 'allowed' else r['disc'][key]
                    if got[key] != w:
                        chk.violation({'kind': sig_kind, 'clause': 'DiscoverIsSpec', 'ckind': key, 'coltype': col['t'], 'sqltype': sqltype},
                                      {'column': col, 'sqltype': sqltype, 'colname': colname, 'observed': got[key], 'expected': w,
                                       'discovered': json.loads(json.dumps(fields[colname], default=str)),
                                       'how': 'discover_db_table on a SQLite table built from the abstract column'})
        finally:
            db.connection.close()
            if os.path.exists(path):
                os.remove(path)
        cnt += 1
        chk.coverage['replayed_cases'] += 1
        chk.count_case(('db', json.dumps(col), sqltype), nontrivial=len(col['v']) > 0)
    return cnt


def run(chk):
    thorough = chk.tier == 'thorough'
    rnd = random.Random(chk.seed + 8)
    r1 = tlc.run('MC_DbSession', cfg_text=open(os.path.join(common.SPEC, 'MC_DbSession.cfg')).read()
                 .replace('MaxCells = 3', 'MaxCells = %d' % (4 if thorough else 3)), name='MC_DbSession', timeout=1800)
    chk.add_tlc(r1)
    if r1.violated:
        chk.machinery_error('MC_DbSession violates %s' % r1.violated)
    rows = sorted(r1.rows, key=lambda r: json.dumps(r['col']))
    if len(rows) < 1000:
        chk.machinery_error('vacuity: only %d columns' % len(rows))
    root = common.subdir('c08')
    events, detail = [], {}
    tid = 0
    # 1. spec -> code: every abstract column as a SQLite table, each perturbation in its own session ------
    sample = rows if thorough else rnd.sample(rows, 500)
    for r in sample:
        col = r['col']
        pool = rnd.randrange(len(cl.STRING_POOLS)) if col['t'] == 'string' else 0
        perturbs = sorted(r['perturbs'], key=lambda p: json.dumps(p)) or [None]
        if not thorough and len(perturbs) > 2:
            perturbs = rnd.sample(perturbs, 2)
        for pb in perturbs:
            path = os.path.join(root, 'g%d.sqlite' % tid)
            db = dbl.connect(path)
            sqltype = rnd.choice(dbl.SQLTYPE[col['t']])
            colname = rnd.choice(COLNAMES)
            try:
                dbl.make_table(db, 't', colname, sqltype, [dbl.sqlvalue(col['t'], v, pool) for v in col['v']], shape=('composite' if tid % 3 == 1 and colname != 'line_no' else 'plain'))
                rex = col['t'] == 'string' and rnd.random() < 0.5
                prow = [] if pb is None else [(pb['k'], dbl.sqlvalue(col['t'], pb['v'], pool))]
                d = {'column': col, 'sqltype': sqltype, 'colname': colname, 'string_pool': pool, 'rex': rex, 'perturbation': pb,
                     'values': [dbl.sqlvalue(col['t'], v, pool) for v in col['v']]}
                fields = session_events(tid, db, 't', colname, os.path.join(root, 'g%d.tdda' % tid), rex, prow, events, d)
                detail[tid] = d
                # C07 on the SQL side: the discovered statistics are SpecDiscover(col)
                if fields is not None and colname in fields:
                    got = cl.abstract_discovery(fields[colname], col['t'], pool)
                    for key in r['dkeys']:
                        w = sorted(r['disc'][key]) if key == 'allowed' else r['disc'][key]
                        if got[key] != w:
                            chk.violation({'kind': 'db-discovery', 'clause': 'DiscoverIsSpec', 'ckind': key, 'coltype': col['t'],
                                           'sqltype': sqltype},
                                          dict(d, observed=got[key], expected=w, how='discover_db_table on a SQLite table built '
                                                                                     'from the abstract column'))
                elif fields is None and len(col['v']) > 0:
                    pass
            finally:
                db.connection.close()
                for p in (path, os.path.join(root, 'g%d.tdda' % tid)):
                    if os.path.exists(p):
                        os.remove(p)
            chk.coverage['replayed_cases'] += 1
            chk.count_case((json.dumps(col), json.dumps(pb)), nontrivial=pb is not None)
            tid += 1
    # 2. code -> spec: rich text tables (quotes, backslashes, unicode, empty strings, all-null, empty table) ----
    nrich = 1500 if thorough else 250
    for _ in range(nrich):
        path = os.path.join(root, 'r%d.sqlite' % tid)
        db = dbl.connect(path)
        kind = rnd.choice(['text', 'text', 'int', 'real', 'allnull', 'empty', 'datetime'])
        colname = rnd.choice(COLNAMES)
        try:
            if kind in ('text', 'allnull', 'empty'):
                n = 0 if kind == 'empty' else rnd.randint(1, 8)
                vals = [None] * n if kind == 'allnull' else [rnd.choice(TEXT_ATTRS + [None]) for _ in range(n)]
                sqltype = rnd.choice(['TEXT', 'VARCHAR'])
                pert = [('max_length', 'x' * 60)] if any(v is not None for v in vals) else []
            elif kind == 'datetime':
                # timestamps with a time of day; the breaking row lies beyond the extreme but on the same calendar day
                import datetime as _dt
                day = _dt.datetime(2021, 3, rnd.randint(1, 27))
                ts = [day - _dt.timedelta(days=rnd.randint(0, 3)) + _dt.timedelta(hours=rnd.randint(1, 20), minutes=rnd.randint(0, 59),
                                                                                      seconds=rnd.randint(0, 59)) for _ in range(rnd.randint(1, 6))]
                vals = [None if rnd.random() < 0.2 else t.strftime('%Y-%m-%d %H:%M:%S') for t in ts]
                sqltype = rnd.choice(['DATETIME', 'TIMESTAMP'])
                nn = [t for t, v in zip(ts, vals) if v is not None]
                if nn and rnd.random() < 0.5:
                    pert = [('max', (max(nn) + _dt.timedelta(minutes=rnd.randint(1, 170))).strftime('%Y-%m-%d %H:%M:%S'))]
                elif nn:
                    pert = [('min', (min(nn) - _dt.timedelta(seconds=rnd.randint(1, 3000))).strftime('%Y-%m-%d %H:%M:%S'))]
                else:
                    pert = []
            elif kind == 'int':
                vals = [rnd.choice([-5, 0, 3, 2**40, None, 2**53 + 1, 2**53 + 3, -(2**53 + 1), 2**62 + 3, 2**63 - 3]) for _ in range(rnd.randint(1, 6))]
                sqltype = 'INTEGER'
                nn_ = [v for v in vals if v is not None]
                big_ = max((abs(v) for v in nn_), default=0)
                pert = [('max', big_ * 2 + 1000)] if nn_ and big_ < 2**61 else []       # far beyond (fuzzy bounds are floats), inside SQLite's integers
            else:
                # (values that need 16-17 significant digits; the breaking row is the next representable number beyond the extreme)
                vals = [rnd.choice([-2.5, 0.0, 1e300, 1e-300, 3.25, None, 0.1 + 0.2, 0.7999999999999999, -(0.1 + 0.2), 1 / 3, 2 / 3,
                                    31415926535.897934, -0.7999999999999999]) for _ in range(rnd.randint(1, 6))]
                sqltype = 'REAL'
                nnr = [v for v in vals if v is not None]
                if not nnr:
                    pert = []
                elif rnd.random() < 0.35:
                    pert = [('min', -1e301)]
                elif rnd.random() < 0.5:
                    pert = [('max', math.nextafter(max(nnr), math.inf))]
                else:
                    pert = [('min', math.nextafter(min(nnr), -math.inf))]
            dbl.make_table(db, 't', colname, sqltype, vals, shape=('composite' if tid % 3 == 1 else 'plain'))
            rex = kind in ('text', 'allnull', 'empty') and rnd.random() < 0.6
            if rex and rnd.random() < 0.6:
                # "a string no expression matches": chosen after discovery, against the discovered expressions
                def pert(fields, colname=colname, vals=vals):
                    import re
                    rexes = (fields.get(colname) or {}).get('rex')
                    if rexes is None:
                        return []
                    # first choice: an existing value in the other letter case (expressions are case-sensitive)
                    swapped = [v.swapcase() for v in vals if v is not None and v.swapcase() != v]
                    for cand in swapped + ['@@@ 12345 !!!', 'ZZZZZZZZZZZZZZZZZZZZZZZZZQ', 'é9é9é9é9é9', '\t\t']:
                        try:
                            if not any(re.match(r, cand) for r in rexes):
                                return [('rex', cand)]
                        except re.error:
                            return []
                    return []
            d = {'values': vals, 'sqltype': sqltype, 'colname': colname, 'rex': rex, 'perturbation': ('chosen after discovery' if callable(pert) else pert[:1]), 'rich': kind}
            session_events(tid, db, 't', colname, os.path.join(root, 'r%d.tdda' % (tid % 3)), rex, pert, events, d)       # (file names are reused: what a path held earlier must not matter)
            detail[tid] = d
        finally:
            db.connection.close()
            for p in (path,):
                if os.path.exists(p):
                    os.remove(p)
        chk.coverage['replayed_cases'] += 1
        tid += 1
    res, rejected = trace.validate('Trace_DbSession', 'Trace_DbSession.cfg', events, name='db_sessions', workers=4)
    if res.error and 'not fully consumed' in res.error:
        # a session stops at its first line that raised: states = the Init line + the lines before it
        expected = 0
        stopped = set()
        for e in events:
            if e['tid'] in stopped:
                continue
            if e.get('raised', 'none') != 'none':
                stopped.add(e['tid'])
                continue
            expected += 1
        done = [r for r in res.rows if 'consumed' in r]
        if done and done[-1]['consumed'] == expected:
            res.ok, res.error = True, None
    chk.add_tlc(res)
    chk.coverage['traces_validated_against_impl'] += tid
    seen = set()
    for rej in rejected:
        for clause in rej['bad']:
            idx = rej['at'] if clause.startswith('NoError') else rej['line']
            e = events[idx - 1]
            key = (e['tid'], clause)
            if key in seen:
                continue
            seen.add(key)
            d = detail.get(e['tid'], {})
            sig = {'kind': 'db-session', 'clause': clause}
            if e['raised'] != 'none':
                sig['error'] = e['raised'].split(':')[0]
                msg = e['raised']
                sig['quote'] = "'" in json.dumps(d.get('discovered', '')) or any(isinstance(v, str) and "'" in v for v in d.get('values', []))
                sig['not_empty_parens'] = 'NOT()' in msg or 'near ")"' in msg
            chk.violation(sig, dict(d, event=e, how='real sqlite3 database, discover_db_table -> .tdda file -> verify_db_table; '
                                                    'judged by spec/Trace_DbSession.tla'))
    if events:
        chk.sample({'session': [e for e in events if e['tid'] == events[0]['tid']], 'case': detail[events[0]['tid']]})
    chk.coverage['rule'] = ('every column of <= N cells over the value grid as a SQLite table (INTEGER/BIGINT, REAL/FLOAT, BOOLEAN, '
                            'DATETIME/TIMESTAMP, TEXT/VARCHAR; quoted column names) x every single-row perturbation the model derives '
                            'from the discovered constraints; plus rich text/number tables (quotes, backslashes, unicode, empty, '
                            'all-null, empty table) x rex; non-trivial = a perturbation exists')
    chk.coverage['exhaustive'] = thorough
    chk.assume('other database engines are not installed; SQLite only')


def replay(path):
    print(json.dumps(json.load(open(path)), indent=1, ensure_ascii=False)[:6000])
    return 0
