"""C03 - every example string is matched by one of the regular expressions rexpy returns. (DESIGN 5/C03)"""
import json
import random

from harness import common, tlc
from harness import rex_lib as rx
from harness import rex_runs as rr

FRAG_DEFECTS = ['IsdigitNotBackslashD', 'ChoiceByInternalDialect', 'BracketCaretFirst']


def frag_cfg(defects, emit, maxc):
    return ('CONSTANTS\n  Defects = {%s}\n  MaxClasses = %d\n  EmitRows = %s\nINIT Init\nNEXT Next\n%sINVARIANT EmitCase\n'
            'CHECK_DEADLOCK FALSE\n' % (', '.join('"%s"' % d for d in defects), maxc, 'TRUE' if emit else 'FALSE',
                                        '' if emit else 'INVARIANT Sound\n'))


def stage_table(wd):
    """The character-class table is regenerated from the running interpreter and the working tree."""
    import os
    tlc.stage(wd)
    with open(os.path.join(wd, 'RexFragTable.tla'), 'w') as f:
        f.write(rx.table_module())


def frag_models(chk, maxc):
    import os
    wd = common.subdir('rexfrag')
    stage_table(wd)
    r0 = tlc.run('MC_RexFrag', cfg_text=frag_cfg([], False, maxc), name='MC_RexFrag_repaired', workdir=wd)
    chk.add_tlc(r0)
    if r0.violated:
        chk.machinery_error('the repaired fragment design is not sound on this interpreter: %s' % r0.violated)
    preds = {}
    for d in FRAG_DEFECTS:
        r = tlc.run('MC_RexFrag', cfg_text=frag_cfg([d], True, maxc), name='MC_RexFrag_%s' % d, workdir=wd)
        chk.add_tlc(r)
        for row in r.rows:
            key = tuple(sorted(row['S']))
            for x in row['res']:
                if x['same'] and not x['sound']:
                    preds.setdefault((key, x['x'], x['d']), set()).add(d)
    return preds


def frag_examples(S, classes, rnd):
    """Example lists whose fragments contain exactly the characters of the classes S (two arrangements)."""
    reps = [classes[c - 1]['reps'] for c in S]
    flat = [r for rs in reps for r in rs]
    general = []
    for a in flat:
        for b in flat:
            general.append(a + b)
    general += flat
    fine = []
    for k in range(2):
        fine.append(''.join(rs[k % len(rs)] for rs in reps))
    fine.append(''.join(rs[-1] for rs in reps))
    return {'general': sorted(set(general)), 'fine': sorted(set(fine))}


PRIORITY = ['LoopExitWithoutReextract', 'IsdigitNotBackslashD', 'ChoiceByInternalDialect', 'BracketCaretFirst']


def primary(causes):
    for c in PRIORITY:
        if c in causes:
            return c
    return 'unexplained'


def classify_unmatched(chk, rec, extra_sig=None, model_causes=None):
    """Registers one violation per unmatched example with its cause signature."""
    dialect = rec['kw'].get('dialect', 'portable')
    for e in rec['unmatched']:
        causes = rr.char_causes(e, dialect, rec['rex'])
        if model_causes and not causes:
            causes = set(model_causes) & {'BracketCaretFirst'} if any('[^-]' in r for r in rec['rex']) else set()
        loop = rec.get('loop_final')
        if loop is not None and not loop['covered'] and loop['lastfail'] > 0:
            causes.add('LoopExitWithoutReextract')
        sig = {'kind': 'rex-unmatched', 'clause': 'Covered', 'cause': primary(causes), 'all_causes': '+'.join(sorted(causes))}
        if extra_sig:
            sig.update(extra_sig)
        chk.violation(sig, {'examples': rec['examples'], 'options': rec['kw'], 'size': rec['size'], 'returned': rec['rex'],
                            'unmatched_example': e, 'how': 'tdda.rexpy.extract(examples, **options); re.fullmatch with UNICODE|DOTALL'})


def run(chk):
    thorough = chk.tier == 'thorough'
    rnd = random.Random(chk.seed)
    # 1. loop model ---------------------------------------------------------------------------------
    r1 = tlc.run('MC_RexLoop', 'MC_RexLoop.cfg', name='MC_RexLoop_repaired')
    chk.add_tlc(r1)
    if r1.violated:
        chk.machinery_error('the repaired loop design violates %s' % r1.violated)
    r2 = tlc.run('MC_RexLoop', 'MC_RexLoop_naive.cfg', name='MC_RexLoop_pinned_loop_exit')
    chk.add_tlc(r2)
    chk.coverage['loop_exit_model_violates_Covered'] = 'Covered' in r2.violated
    if 'Covered' not in r2.violated:
        chk.machinery_error('vacuity: the model of the pinned loop exit should violate Covered')
    # 2. fragment model + replay ----------------------------------------------------------------------
    preds = frag_models(chk, 3)
    chk.coverage['fragment_cases_predicted_unsound_in_pinned_design'] = len(preds)
    classes = rx.char_classes()
    chk.coverage['character_classes'] = len(classes)
    import itertools
    sets = [c for n in (1, 2, 3) for c in itertools.combinations(range(1, len(classes) + 1), n)]
    if not thorough:
        rnd.shuffle(sets)
        sets = sets[:260]
    tid = 0
    for S in sets:
        combos = [(x, d) for x in rx.EXTRAS for d in rx.DIALECTS]
        if not thorough:
            combos = rnd.sample(combos, 3)
        for x, d in combos:
            exs = frag_examples(S, classes, rnd)
            for mode, ex in exs.items():
                kw = {'dialect': d}
                if x:
                    kw['extra_letters'] = x
                if rnd.random() < 0.3:
                    kw['tag'] = True
                rec = rr.run_record(rnd, tid, examples=list(ex), kw=kw, sizekw=None)
                tid += 1
                chk.coverage['replayed_cases'] += 1
                chk.count_case(('frag', S, x, d, mode), nontrivial=len(S) > 1)
                causes = preds.get((tuple(S), x, d), set())
                if rec['raised'] != 'none':
                    chk.violation({'kind': 'rex-raises', 'clause': 'NoError', 'error': rec['raised'].split(':')[0]},
                                  {'examples': ex, 'options': kw, 'raised': rec['raised']})
                elif rec['unmatched']:
                    classify_unmatched(chk, rec, model_causes=causes)
    # 3. rich recorded runs: loop traces + oracle -------------------------------------------------------
    nrich = 4000 if thorough else 700
    recs = [rr.run_record(rnd, 100000 + i) for i in range(nrich)]
    # a majority shape plus a few rarer members whose varying punctuation includes extra-letter characters, with a Size that
    # makes extraction start from a sample (the rare members arrive as failures of the first expressions)
    family = []          # judged by the final oracle only (their loop traces range over 50+ examples: too large for the trace spec)
    import string as _string
    from tdda.rexpy.rexpy import Size as _Size
    for j in range(240 if thorough else 36):
        low = _string.ascii_lowercase
        common_p = rnd.sample('!#@~', 2)
        ordinary = ['%s%s%s%s%s' % (a, b, common_p[(i_ + k_) % 2], b, a) for i_, a in enumerate(rnd.sample(low, 8)) for k_, b in enumerate(rnd.sample(low, 6))]
        rare_p = rnd.sample('.$%&*+-_=;', 6)
        rare = ['q%s%sz%s' % (rnd.choice(low), p_, rnd.choice(low)) for p_ in rare_p]
        exs = ordinary + rare
        if j % 3 == 0:
            rnd.shuffle(exs)
        sizekw = {'do_all': 10, 'do_all_exceptions': 10, 'max_sampled_attempts': 2}
        kw = {'extra_letters': rnd.choice(['_.', '.-', '_.-', '-_']), 'dialect': rnd.choice(rx.DIALECTS), 'seed': j % 8,
              'size': _Size(**sizekw)}
        if rnd.random() < 0.3:
            kw['tag'] = True
        family.append(rr.run_record(rnd, 100000 + nrich + j, examples=exs, kw=kw, sizekw=sizekw))
    # a varying punctuation character with more distinct values than Size.max_punc_in_group (the general punctuation class is
    # rendered), the awkward ones among them: backslash, caret, brackets, hyphen
    for j in range(120 if thorough else 24):
        low = _string.ascii_lowercase
        ps = rnd.sample('!#$%&*+=;:@~|/?<>', rnd.randint(4, 7)) + rnd.sample(['\\', '^', ']', '[', '-'], rnd.randint(2, 3))
        exs = ['%s%s%s' % (rnd.choice(low), p_, rnd.choice(low) * rnd.randint(1, 2)) for p_ in ps]
        rnd.shuffle(exs)
        kw = {'dialect': rx.DIALECTS[j % 3]}
        if rnd.random() < 0.3:
            kw['extra_letters'] = rnd.choice(['_', '.', '_.'])
        family.append(rr.run_record(rnd, 200000 + j, examples=exs, kw=kw, sizekw=None))
    finals, rejected = rr.validate_loops(chk, recs)
    for rec in family:
        chk.coverage['replayed_cases'] += 1
        chk.count_case(('family', json.dumps(rec['examples']), json.dumps(rec['kw'], sort_keys=True)), nontrivial=True)
        if rec['raised'] != 'none':
            chk.violation({'kind': 'rex-raises', 'clause': 'NoError', 'error': rec['raised'].split(':')[0]},
                          {'examples': rec['examples'], 'options': rec['kw'], 'size': rec['size'], 'raised': rec['raised']})
        elif rec['unmatched']:
            classify_unmatched(chk, rec)
    sampled = 0
    for rec in recs:
        rec['loop_final'] = finals.get(rec['tid'])
        chk.count_case(('rich', json.dumps(rec['examples']), json.dumps(rec['kw'], sort_keys=True), json.dumps(rec['size'])),
                       nontrivial=len(rec['kept']) > 1)
        chk.coverage['replayed_cases'] += 1
        if rec['size']:
            sampled += 1
        if rec['raised'] != 'none':
            chk.violation({'kind': 'rex-raises', 'clause': 'NoError', 'error': rec['raised'].split(':')[0]},
                          {'examples': rec['examples'], 'options': rec['kw'], 'size': rec['size'], 'raised': rec['raised']})
            continue
        if rec['tid'] in rejected:
            rj = rejected[rec['tid']]
            ev = rj['event']
            clause = {'BatchExtract': 'BatchCoversWorkingSet', 'CheckFailures': 'CheckFailuresExact',
                      'InitialSample': 'InitialSampleIsSpec'}.get(ev.get('ev'), 'LoopStepExplained')
            causes = set()
            at_step = []
            if ev.get('ev') == 'BatchExtract' and rec.get('obj') is not None and hasattr(rec['obj'], 'all_examples'):
                allstr = list(rec['obj'].all_examples.strings)
                at_step = [allstr[int(i_[1:])] for i_ in ev.get('working', []) if i_ not in ev.get('matched', []) and int(i_[1:]) < len(allstr)]
            for e in at_step or rec['unmatched'] or list(rec['kept']):
                causes |= rr.char_causes(e, rec['kw'].get('dialect', 'portable'), list(rec['rex']) + list(ev.get('rextexts', [])))
            if clause == 'BatchCoversWorkingSet' and causes:
                sig = {'kind': 'rex-unmatched', 'clause': 'Covered', 'cause': primary(causes), 'all_causes': '+'.join(sorted(causes))}
            else:
                sig = {'kind': 'rex-loop', 'clause': clause}
            chk.violation(sig, {'examples': rec['examples'], 'options': rec['kw'], 'size': rec['size'], 'returned': rec['rex'],
                                'trace_prefix': rj['events'][-4:], 'how': 'recorded loop steps not explained by spec/RexLoop.tla'})
        elif rec['unmatched']:
            classify_unmatched(chk, rec)
    # the pandas entry point: every non-null value of the column(s) is an example (an empty string too)
    import pandas as _pd
    from tdda.rexpy import pdextract as _pdextract
    for j in range(300 if thorough else 60):
        exs = [e if e is None else e.replace('\x00', '~') for e in rx.rich_examples(rnd)]      # (pandas' unique() truncates at NUL: environment)
        if j % 3 == 0:
            exs.append('')
        ser = _pd.Series(exs, dtype=object)
        try:
            if j % 4 == 1 and len(exs) > 1:
                rexes = _pdextract([ser.iloc[:1], ser.iloc[1:]])
            else:
                rexes = _pdextract(ser)
            raised = 'none'
        except Exception as exn:
            rexes, raised = [], '%s: %s' % (type(exn).__name__, str(exn)[:100])
        vals = sorted({e for e in exs if e is not None})
        rec = {'tid': 300000 + j, 'examples': exs, 'form': 'Series', 'kw': {}, 'size': None, 'rex': list(rexes), 'raised': raised,
               'kept': {v_: 1 for v_ in vals}, 'events': [], 'obj': None,
               'unmatched': [v_ for v_ in vals if not any(rx.full_match(x_, v_) for x_ in rexes)] if raised == 'none' else []}
        chk.coverage['replayed_cases'] += 1
        chk.count_case(('series', json.dumps(exs)), nontrivial=len(vals) > 1)
        if raised != 'none':
            chk.violation({'kind': 'rex-raises', 'clause': 'NoError', 'error': raised.split(':')[0], 'entry': 'pdextract'},
                          {'examples': exs, 'raised': raised, 'how': 'tdda.rexpy.pdextract(pandas Series)'})
        elif rec['unmatched']:
            classify_unmatched(chk, rec, extra_sig=None)
    chk.coverage['rich_runs'] = nrich
    chk.coverage['rich_runs_with_sampling_sizes'] = sampled
    chk.coverage['loop_traces_accepted'] = len(finals)
    chk.coverage['loop_traces_rejected'] = len(rejected)
    if recs:
        r = recs[0]
        chk.sample({'examples': r['examples'], 'options': r['kw'], 'size': r['size'], 'returned': r['rex']})
    chk.coverage['rule'] = ('fragments: sets of <= 3 of the %d character classes of this interpreter x extra letters x dialect x '
                            'two arrangements; rich runs: random multisets over one representative of every class and a word pool '
                            '(list / dict), all options, Size settings 1..3 that force sampling, seeds; each run recorded and its '
                            'loop steps validated against RexLoop; non-trivial = more than one class / kept example' % len(classes))
    chk.coverage['exhaustive'] = thorough
    chk.assume('matching = re.fullmatch with UNICODE|DOTALL on the returned text (perl / portable / grep dialects)')
    chk.assume('known causes are named deviations of the pinned design in RexFrag.tla / RexLoop.tla; an unmatched example none '
               'of them explains is a violation')


def replay(path):
    w = json.load(open(path))
    from tdda.rexpy import extract
    for wit in w['witnesses'][:3]:
        print(wit.get('examples'), wit.get('options'), wit.get('returned'), wit.get('unmatched_example'))
    return 0
