"""C12 - gentest: the generated test fails when the command behaves differently. (DESIGN 5/C12)"""
import json
import random

from harness import common, tlc
from harness import gentest_run as gr

CLAUSES = {'Teeth', 'ScriptPasses'}


def run(chk):
    thorough = chk.tier == 'thorough'
    r1 = tlc.run('MC_Gentest', 'MC_Gentest.cfg', name='MC_Gentest')
    chk.add_tlc(r1)
    if r1.violated:
        chk.machinery_error('MC_Gentest violates %s' % r1.violated)
    r2 = tlc.run('MC_Gentest', 'MC_Gentest_noremove.cfg', name='MC_Gentest_noremove')
    chk.add_tlc(r2)
    chk.coverage['model_without_removal_of_previous_outputs_violates_Teeth'] = 'Teeth' in r2.violated
    if 'Teeth' not in r2.violated:
        chk.machinery_error('vacuity: without removing previous outputs the model should violate Teeth')
    gr.run_sessions(chk, chk.seed + 12, 300 if thorough else 42, 4 if thorough else 3, CLAUSES, 'c12')
    chk.coverage['rule'] = ('the C11 command space; after generation one thing changes at a time (a character or a line of stdout / '
                            'stderr / a text file, a byte of a binary file, a file no longer produced, the exit status), the generated '
                            'test is run, the change is undone, the test is run again; the verdict of every generated test is bound to '
                            'the model and Teeth / ScriptPasses are evaluated')
    chk.coverage['exhaustive'] = False
    chk.assume('perturbations touch the first line, which never carries host / user / cwd tokens or a date close to the day of the run (dates decades away are ordinary content)')


def replay(path):
    print(json.dumps(json.load(open(path)), indent=1, ensure_ascii=False)[:6000])
    return 0
