"""C16 - CSV files described by CSVW metadata load with the declared types and values. (DESIGN 5/C16)

Model: spec/Csvw.tla - the replace chain vs field-wise translation (every composed pattern), and the
dialect/header -> read_csv keyword decision table.  Spec -> code: the real translation function on every
pattern; real CSV files written with the intended pattern and real instants, CSVW JSON next to them,
csv2pandas; the dialect x type matrix.  Every load is one trace line judged by Trace_Csvw.
"""
import datetime
import io
import json
import os
import random
import shutil

import numpy as np
import pandas as pd

from harness import common, tlc, trace

DELIMS = {',': ',', '|': '|', 'TAB': '\t', ';': ';'}


def render(items, t):
    """The text of instant t under the CSVW pattern given as items (the INTENDED meaning of each field)."""
    out = []
    for x in items:
        if x == 'd':
            out.append(str(t.day))
        elif x == 'dd':
            out.append('%02d' % t.day)
        elif x == 'M':
            out.append(str(t.month))
        elif x == 'MM':
            out.append('%02d' % t.month)
        elif x == 'yy':
            out.append('%02d' % (t.year % 100))
        elif x == 'yyyy':
            out.append('%04d' % t.year)
        elif x == 'HH':
            out.append('%02d' % t.hour)
        elif x == 'mm':
            out.append('%02d' % t.minute)
        elif x == 'ss':
            out.append('%02d' % t.second)
        elif x == 'S':
            out.append('%01d' % (t.microsecond // 100000))
        elif x == 'SS':
            out.append('%02d' % (t.microsecond // 10000))
        elif x == 'SSS':
            out.append('%03d' % (t.microsecond // 1000))
        else:
            out.append(x)
    return ''.join(out)


def instants_for(items):
    has_time = 'HH' in items
    has_sec = 'ss' in items
    frac = next((x for x in items if x in ('S', 'SS', 'SSS')), None)
    base = [datetime.datetime(2020, 2, 29, 23, 59, 58), datetime.datetime(2001, 1, 1, 0, 0, 0),
            datetime.datetime(1999, 12, 31, 12, 34, 56), datetime.datetime(2031, 7, 4, 5, 6, 7)]
    out = []
    for i, t in enumerate(base):
        if not has_time:
            t = t.replace(hour=0, minute=0, second=0)
        elif not has_sec:
            t = t.replace(second=0)
        if frac == 'S':
            t = t.replace(microsecond=[0, 500000, 900000, 100000][i])
        elif frac == 'SS':
            t = t.replace(microsecond=[250000, 50000, 990000, 0][i])
        elif frac == 'SSS':
            t = t.replace(microsecond=[999000, 1000, 125000, 0][i])
        out.append(t)
    return out


def write_case(wd, name, columns, rows, dialect, header, header_spelling, encoding, titles=False, boolfmt=None):
    """columns: list of (name, csvw datatype or dict); rows: list of lists of text cells (None = null)."""
    sep = DELIMS[dialect] if dialect else ','
    enc = encoding or 'utf-8'
    path = os.path.join(wd, name + '.csv')
    lines = []
    if header:
        lines.append(sep.join(c[0] for c in columns))
    for r in rows:
        lines.append(sep.join('' if c is None else c for c in r))
    with open(path, 'w', encoding=enc, newline='') as f:
        f.write('\n'.join(lines) + '\n')
    cols = []
    for n, dt in columns:
        c = {'name': n, 'datatype': dt}
        if titles:
            c['titles'] = n
        cols.append(c)
    d = {}
    if dialect:
        d['delimiter'] = sep
    if encoding:
        d['encoding'] = encoding
    if not header:
        if header_spelling == 'header':
            d['header'] = False
        elif header_spelling == 'hrc':
            d['headerRowCount'] = 0
        else:
            d['header'] = False
            d['headerRowCount'] = 0
    md = {'@context': 'http://www.w3.org/ns/csvw', 'url': name + '.csv', 'tableSchema': {'columns': cols}}
    if d:
        md['dialect'] = d
    mdpath = os.path.join(wd, name + '-metadata.json')
    with open(mdpath, 'w', encoding='utf-8') as f:
        json.dump(md, f)
    return path, mdpath, md


def load(path, mdpath, **kw):
    from tdda.serial.reader import csv2pandas
    import contextlib
    with contextlib.redirect_stdout(io.StringIO()), contextlib.redirect_stderr(io.StringIO()):
        return csv2pandas(path, mdpath=mdpath, **kw)


def run(chk):
    thorough = chk.tier == 'thorough'
    rnd = random.Random(chk.seed + 16)
    r1 = tlc.run('MC_Csvw', 'MC_Csvw.cfg', name='MC_Csvw')
    chk.add_tlc(r1)
    if r1.violated:
        chk.machinery_error('MC_Csvw violates %s' % r1.violated)
    rows = sorted(r1.rows, key=lambda r: json.dumps(r['items']))
    if len(rows) < 1000:
        chk.machinery_error('vacuity: only %d formats' % len(rows))
    if thorough:
        r2 = tlc.run('MC_Csvw', 'MC_Csvw_pinned.cfg', name='MC_Csvw_pinned')
        chk.add_tlc(r2)
        chk.coverage['pinned_header_model_violates_KwIsSpec'] = bool(r2.violated)
    from tdda.serial.csvw import csvw_date_format_to_md_date_format
    wd = common.subdir('c16')
    events, detail = [], {}
    tid = 0
    # 1. the translation function on every composed pattern ---------------------------------------
    for r in rows:
        text = ''.join(r['text'])
        want = ''.join(r['spec'])
        try:
            got = csvw_date_format_to_md_date_format(text)
        except Exception as ex:
            got = 'raised %s' % type(ex).__name__
        chk.coverage['replayed_cases'] += 1
        chk.count_case(('fmt', text), nontrivial=True)
        if got != want:
            frac = next((x for x in r['items'] if x in ('S', 'SS', 'SSS')), 'none')
            chk.violation({'kind': 'csvw-format', 'clause': 'TranslateIsSpec', 'fraction': frac},
                          {'format': text, 'observed': got, 'expected': want, 'how': 'csvw_date_format_to_md_date_format(format)'})
        if got != ''.join(r['impl']) and got == want:
            chk.drift_case({'format': text, 'observed': got, 'impl': ''.join(r['impl'])})
    # 2. round trip of real instants through every pattern ---------------------------------------------
    sample = rows if thorough else rnd.sample(rows, 300)
    for r in sample:
        items = r['items']
        text = ''.join(r['text'])
        ts = instants_for(items)
        is_date = 'HH' not in items
        cells = [[str(i), render(items, t)] for i, t in enumerate(ts)] + [[str(len(ts)), None]]
        header = rnd.random() < 0.8
        delim = rnd.choice([None, ',', '|', 'TAB', ';'])
        if delim == ',' or delim is None:
            pass
        path, mdpath, md = write_case(wd, 'f%d' % tid, [('id', 'integer'), ('when', {'base': 'date' if is_date else 'datetime', 'format': text})],
                                      cells, delim, header, rnd.choice(['hrc', 'both']), rnd.choice([None, 'utf-8']))
        ev = {'tid': tid, 'ev': 'Load', 'kind': 'format', 'raised': 'none', 'names_ok': True, 'dtypes_ok': True, 'values_ok': True,
              'nulls_ok': True, 'rows_ok': True}
        try:
            df = load(path, mdpath)
            ev['names_ok'] = list(df.columns) == ['id', 'when']
            ev['rows_ok'] = len(df) == len(cells)
            if ev['names_ok'] and ev['rows_ok']:
                ev['dtypes_ok'] = str(df['when'].dtype).startswith('datetime64') and str(df['id'].dtype) == 'Int64'
                vals = df['when'].tolist()
                ev['values_ok'] = all((pd.Timestamp(t) == v) for t, v in zip(ts, vals[:len(ts)]) if not pd.isna(v)) and \
                    not any(pd.isna(v) for v in vals[:len(ts)])
                ev['nulls_ok'] = pd.isna(vals[-1])
        except Exception as ex:
            ev['raised'] = '%s: %s' % (type(ex).__name__, str(ex)[:160])
        events.append(ev)
        detail[tid] = {'format': text, 'metadata': md, 'cells': cells, 'instants': [str(t) for t in ts]}
        chk.coverage['replayed_cases'] += 1
        tid += 1
    # 3. dialect x encoding x header x types ---------------------------------------------------------------
    combos = [(dl, enc, hd, sp, ti) for dl in (None, ',', '|', 'TAB', ';') for enc in (None, 'utf-8', 'latin-1', 'utf-16')
              for hd in (True, False) for sp in ('hrc', 'header', 'both') for ti in (False, True)]
    if not thorough:
        combos = rnd.sample(combos, 90)
    for dl, enc, hd, sp, ti in combos:
        if hd and sp != 'hrc':
            continue
        boolsp = rnd.choice([None, 'true|false', 'Y|N', '1|0'])
        # column names: short ones, or names of which a later one is part of an earlier one (order_id ... id)
        nm = rnd.choice([['n', 'x', 's', 'b', 'd', 't', 'b2'], ['order_id', 'amount', 'id', 'ok', 'created_at', 'created', 'at']])
        cols = [(nm[0], 'integer'), (nm[1], 'number'), (nm[2], 'string'),
                (nm[3], {'base': 'boolean', 'format': boolsp} if boolsp else 'boolean'),
                (nm[4], {'base': 'date', 'format': 'yyyy-MM-dd'}), (nm[5], {'base': 'datetime', 'format': 'dd/MM/yyyy HH:mm:ss'})]
        # a second boolean column with its own declared spelling
        boolsp2 = rnd.choice([None, 'true|false', 'Y|N', '1|0', 'yes|no'])
        cols.append((nm[6], {'base': 'boolean', 'format': boolsp2} if boolsp2 else 'boolean'))
        tv, fv = (boolsp.split('|') if boolsp else ('true', 'false'))
        tv2, fv2 = (boolsp2.split('|') if boolsp2 else ('true', 'false'))
        strs = ['plain #12 (flat)', 'café', 'x y \x80\x9c\xa4', '12']        # incl. C1 controls, where latin-1 and windows-1252 disagree
        data = [[1, 1.5, strs[0], True, datetime.datetime(2020, 2, 29), datetime.datetime(2020, 2, 29, 23, 59, 58), False],
                [None, None, None, None, None, None, None],
                [-7, -0.25, strs[1], False, datetime.datetime(1999, 12, 31), datetime.datetime(2001, 1, 1, 0, 0, 0), True],
                [rnd.choice([30, 2**53 + 1, -(2**53 + 3), 2**62 + 1]), 2.0, strs[2], True, datetime.datetime(2031, 7, 4), datetime.datetime(2031, 7, 4, 5, 6, 7), True]]       # (integers no double holds, next to a null)
        # the reader's option for columns the description leaves untyped must leave a declared number column a number column,
        # also when all its values happen to be whole
        upi = rnd.random() < 0.3
        if upi:
            for row_, whole_ in zip(data, [1.0, None, -4.0, 2.0]):
                row_[1] = whole_
        if rnd.random() < 0.15:
            data = []           # a table with a header and no records still has its declared types
        cells = []
        for row in data:
            cells.append([None if row[0] is None else str(row[0]), None if row[1] is None else repr(row[1]),
                          row[2], None if row[3] is None else (tv if row[3] else fv),
                          None if row[4] is None else row[4].strftime('%Y-%m-%d'),
                          None if row[5] is None else row[5].strftime('%d/%m/%Y %H:%M:%S'),
                          None if row[6] is None else (tv2 if row[6] else fv2)])
        # the same few file names are written again and again with other contents (what was loaded earlier must not matter)
        path, mdpath, md = write_case(wd, 'm%d' % (tid % 3), cols, cells, dl, hd, sp, enc, titles=ti)
        ev = {'tid': tid, 'ev': 'Load', 'kind': 'matrix', 'raised': 'none', 'names_ok': True, 'dtypes_ok': True, 'values_ok': True,
              'nulls_ok': True, 'rows_ok': True}
        try:
            df = load(path, mdpath, **({'upgrade_possible_ints': True} if upi else {}))
            ev['names_ok'] = list(df.columns) == [c[0] for c in cols]
            ev['rows_ok'] = len(df) == len(data)
            if ev['names_ok'] and ev['rows_ok']:
                dt = {c: str(df[c].dtype) for c in df.columns}
                ev['dtypes_ok'] = (dt[nm[0]] == 'Int64' and dt[nm[1]].startswith('float') and dt[nm[2]] in ('string', 'str', 'object')
                                   and dt[nm[3]] == 'boolean' and dt[nm[6]] == 'boolean' and dt[nm[4]].startswith('datetime64') and dt[nm[5]].startswith('datetime64'))
                ok = True
                nulls = True
                for i, row in enumerate(data):
                    for j, c in enumerate(c[0] for c in cols):
                        v = df[c].iloc[i]
                        if row[j] is None:
                            nulls = nulls and bool(pd.isna(v))
                        elif isinstance(row[j], datetime.datetime):
                            ok = ok and (not pd.isna(v)) and pd.Timestamp(row[j]) == v
                        else:
                            ok = ok and (not pd.isna(v)) and v == row[j]
                ev['values_ok'], ev['nulls_ok'] = bool(ok), bool(nulls)
                if not (ok and nulls and ev['dtypes_ok']):
                    ev['frame'] = json.loads(df.to_json(orient='split', date_format='iso'))
                    ev['dtypes'] = dt
        except Exception as ex:
            ev['raised'] = '%s: %s' % (type(ex).__name__, str(ex)[:160])
        events.append(ev)
        detail[tid] = {'metadata': md, 'cells': cells, 'dialect': [dl, enc, hd, sp, ti, boolsp], 'second_boolean_spelling': boolsp2, 'upgrade_possible_ints': upi}
        chk.coverage['replayed_cases'] += 1
        chk.count_case(('matrix', dl, enc, hd, sp, ti, boolsp), nontrivial=True)
        tid += 1
    clean = [{k: v for k, v in e.items() if k not in ('frame', 'dtypes')} for e in events]
    res, rejected = trace.validate('Trace_Csvw', 'Trace_Csvw.cfg', clean, name='csvw_loads', workers=4)
    chk.add_tlc(res)
    chk.coverage['traces_validated_against_impl'] += len(events)
    for rej in rejected:
        e = events[rej['line'] - 1]
        d = detail[e['tid']]
        for clause in rej['bad']:
            sig = {'kind': 'csvw-load', 'clause': clause, 'case': e['kind']}
            if e['raised'] != 'none':
                sig['error'] = e['raised'].split(':')[0]
            if 'dialect' in d:
                dl, enc, hd, sp, ti, boolsp = d['dialect']
                sig['header'] = 'present' if hd else 'absent'
                if not hd:
                    sig['header_spelling'] = sp
                    sig['titles'] = ti
                if clause == 'ValuesPreserved' or clause == 'TypesAsDeclared':
                    sig['bool_spelling'] = boolsp or 'default'
            chk.violation(sig, dict(d, event=e, how='CSV + CSVW metadata written to disk, tdda.serial.reader.csv2pandas; '
                                                    'judged by spec/Trace_Csvw.tla'))
    chk.sample({'load_event': clean[0], 'case': {k: detail[0][k] for k in ('format', 'cells')}})
    loaddf_cases(chk, rnd, thorough)
    chk.coverage['rule'] = ('every date / date-time pattern composed from d|dd, M|MM, yy|yyyy in 4 orders x 4 separators, optionally '
                            'joined by space or T to HH:mm[:ss[.S|SS|SSS]] (1408 patterns): translation on all, real-instant round trip '
                            'on a sample (all in thorough); dialect matrix delimiter x encoding x header (3 spellings) x titles x '
                            'boolean spelling over integer/number/string/boolean/date/datetime columns with a null row')
    chk.coverage['exhaustive'] = thorough
    chk.assume('fields are joined by separators (no two fields adjacent); fractions of 1-3 digits; written values use the intended pattern')
    chk.assume('byte fidelity of values is measured on real files (encode/decode is not modelled); the model supplies the pattern '
               'space, the expected translation and the header/names decision table')


def loaddf_cases(chk, rnd, thorough):
    """LoadDf.tla: which description load_df uses (explicit, associated CSVW file, the description itself, none)."""
    from harness import loaddf_lib as ll
    r = tlc.run('MC_LoadDf', 'MC_LoadDf.cfg', name='MC_LoadDf')
    chk.add_tlc(r)
    if r.violated:
        chk.machinery_error('MC_LoadDf violates %s' % r.violated)
    if thorough:
        rp = tlc.run('MC_LoadDf', 'MC_LoadDf_pinned.cfg', name='MC_LoadDf_pinned')
        chk.add_tlc(rp)
        chk.coverage['pinned_loaddf_model_violates'] = 'ImplIsSpecInv' in rp.violated
        if 'ImplIsSpecInv' not in rp.violated:
            chk.machinery_error('vacuity: the pinned LoadDf model should violate ImplIsSpecInv')
    rows = sorted(r.rows, key=lambda x: json.dumps(x, sort_keys=True))
    wd = common.subdir('loaddf')
    # (a) precedence of the candidate files: every subset of the 11 candidates
    seen = {}
    for row in rows:
        key = tuple(sorted(row['siblings']))
        if key in seen:
            continue
        seen[key] = row['found']
    subsets = sorted(seen) if thorough else rnd.sample(sorted(seen), 300)
    for key in subsets:
        got = ll.find_only(os.path.join(wd, 'find'), key, rnd.choice(ll.NAMES))
        chk.coverage['replayed_cases'] += 1
        chk.count_case(('find', key), nontrivial=len(key) > 1)
        if got != seen[key]:
            if 1 in key or not key:
                chk.violation({'kind': 'load-df', 'clause': 'AssociatedFileIsFirstCandidate'},
                              {'candidates_present': [ll.SUFFIXES[i - 1] for i in key], 'observed_index': got, 'expected_index': seen[key],
                               'how': 'tdda.serial.utils.find_associated_metadata_file on real (empty) files'})
            else:
                chk.drift_case({'what': 'precedence among non-CSVW candidates differs from the transcription',
                                'candidates_present': [ll.SUFFIXES[i - 1] for i in key], 'observed_index': got, 'expected_index': seen[key]})
    # (b) load_df itself: candidates restricted to the CSVW file and two decoys
    events, details = [], {}
    tid = 0
    for row in rows:
        if not set(row['siblings']) <= {1, 2, 6}:
            continue
        for name in (ll.NAMES if thorough else [ll.NAMES[tid % len(ll.NAMES)]]):
            e = ll.load_case(os.path.join(wd, 'load'), row, name, dotted_dir=(tid % 3 == 0))
            e['tid'] = tid
            events.append(e)
            details[tid] = {'file_given': e['file'], 'kwargs': e['kwargs'], 'candidates_present': [ll.SUFFIXES[i - 1] for i in e['siblings']],
                            'observed': e['observed'], 'detail': e['detail'], 'specified': row['spec'], 'demanded': row['dem']}
            chk.coverage['replayed_cases'] += 1
            chk.count_case(('load_df', json.dumps(row, sort_keys=True), name), nontrivial=row['dem'] and row['ext'] == 'csv')
            decoy = row['found'] not in (0, 1) and not row['mdpath'] and not row['ignore']     # an empty JSON decoy is what gets read
            if e['observed'] != row['impl'] and not decoy and not (row['dem'] and e['observed'] != row['spec']):
                chk.drift_case({'what': 'load_df differs from the transcription', 'case': details[tid]})
            tid += 1
    clean = [{k: v for k, v in e.items() if k not in ('detail', 'file', 'kwargs')} for e in events]
    res, rejected = trace.validate('Trace_LoadDf', 'Trace_LoadDf.cfg', clean, name='load_df', workers=4)
    chk.add_tlc(res)
    chk.coverage['traces_validated_against_impl'] += len(events)
    chk.coverage['load_df_calls'] = len(events)
    for rej in rejected:
        e = events[rej['line'] - 1]
        for clause in rej['bad']:
            sig = {'kind': 'load-df', 'clause': clause, 'given': e['given'], 'mdpath': e['mdpath'], 'ignore': e['ignore']}
            if e['observed'] == 'raises':
                sig['error'] = e['detail'].split(':')[0]
            chk.violation(sig, dict(details[e['tid']], how='tdda.constraints.pd.constraints.load_df on real files; judged by '
                                                               'spec/Trace_LoadDf.tla'))
    if events:
        chk.sample({'load_df_event': clean[0]})
    shutil.rmtree(wd, ignore_errors=True)


def replay(path):
    print(json.dumps(json.load(open(path)), indent=1, ensure_ascii=False)[:6000])
    return 0
