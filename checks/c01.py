"""C01 - discovered DataFrame constraints are satisfied by the data they came from. (DESIGN 5/C01)"""
import json
import random
import re

from harness import common, tlc, trace
from harness import constraints_run as run_
from harness import verify_session as vs


def closure_replay(chk, rows, rnd, all_variants):
    """Every abstract column of the case table: real discover -> dict -> verify/detect (rex on and off)."""
    import pandas as pd
    from harness import constraints_lib as cl
    from tdda.constraints import discover_df, verify_df, detect_df
    n = 0
    for r in rows:
        col = r['col']
        variants = cl.variants_for(col)
        if not all_variants:
            variants = [rnd.choice(variants)]
        for var in variants:
            pools = range(len(cl.STRING_POOLS)) if col['t'] == 'string' else [0]
            for pool in (pools if all_variants else [rnd.choice(list(pools))]):
                df = pd.DataFrame({'f': cl.series(col, var, pool)})
                for rex in ((False, True) if col['t'] == 'string' else (False,)):
                    n += 1
                    chk.coverage['replayed_cases'] += 1
                    chk.count_case((json.dumps(col), var, pool, rex), nontrivial=len(col['v']) > 0)
                    what = None
                    try:
                        with cl.quiet():
                            cs = discover_df(df.copy(), inc_rex=rex)
                            if cs is None:
                                continue
                            d = cs.to_dict()
                            v = verify_df(df.copy(), d)
                            dv = detect_df(df.copy(), d, per_constraint=True, output_fields=[])
                        if v.failures or dv.failures:
                            failed = [k for k, x in v.fields['f'].items() if x is not None and not bool(x)]
                            what = ('Closure_verify', {'failed': failed, 'constraints': json.loads(json.dumps(d['fields'], default=str))})
                        elif dv.detection is not None and dv.detection.n_failing_records:
                            what = ('DetectClosure', {})
                    except Exception as ex:
                        what = ('NoError', {'error': '%s: %s' % (type(ex).__name__, str(ex)[:200])})
                    if what:
                        sig = {'kind': 'closure', 'clause': what[0], 'coltype': col['t'], 'variant': var, 'rex': rex,
                               'nrows0': len(col['v']) == 0}
                        if 'error' in what[1]:
                            sig['error'] = what[1]['error'].split(':')[0]
                        if 'failed' in what[1]:
                            sig['ckinds'] = ','.join(sorted(what[1]['failed']))
                        chk.violation(sig, {'column': col, 'dtype_variant': var, 'string_pool': pool, 'rex': rex,
                                            'concrete_column': repr(df['f'].tolist()), 'detail': what[1],
                                            'how': 'discover_df -> to_dict -> verify_df / detect_df on the same frame'})
    return n


def run(chk):
    thorough = chk.tier == 'thorough'
    rnd = random.Random(chk.seed)
    # 1. design level: ClosureHolds on every grid column, Closure on every session path --------------
    rows = run_.model_rows(chk, 4 if thorough else 3)
    r2 = tlc.run('VerifySession', 'MC_VerifySession.cfg', name='MC_VerifySession', workers=4)
    chk.add_tlc(r2)
    if r2.violated:
        chk.machinery_error('MC_VerifySession violates %s' % r2.violated)
    # 2. spec -> code: closure on every abstract column ------------------------------------------------
    chk.coverage['closure_replays'] = closure_replay(chk, rows, rnd, thorough)
    # 3. code -> spec: rich sessions -------------------------------------------------------------------------
    root = common.subdir('c01_sessions')
    events = []
    infos = {}
    nsess = 3000 if thorough else 400
    for tid in range(nsess):
        evs, info = vs.one_session(rnd, tid, root)
        if len(evs) > 1:
            events += evs
            infos[tid] = info
    # a frame that lives on: the same object is verified, given new values in place, and taken through a whole session again
    for j in range(300 if thorough else 60):
        df, kinds = vs.rich_frame(rnd)
        for rep in range(3):
            tid = nsess + 3 * j + rep
            evs, info = vs.one_session(rnd, tid, root, df=df, kinds=kinds, copy=False)
            if len(evs) > 1:
                events += evs
                infos[tid] = info
            try:
                if not vs.change_in_place(rnd, df, kinds):
                    break
            except Exception:
                break
    res, rejected = trace.validate('Trace_VerifySession', 'Trace_VerifySession.cfg', events, name='verify_sessions',
                                   workers=4)
    chk.add_tlc(res)
    chk.coverage['traces_validated_against_impl'] += len(infos)
    chk.coverage['trace_events'] = len(events)
    kinds_seen = {}
    for i in infos.values():
        for k in i['kinds'].values():
            kinds_seen[k] = kinds_seen.get(k, 0) + 1
    chk.coverage['column_kinds_in_sessions'] = kinds_seen
    for rej in rejected:
        e = events[rej['line'] - 1]
        info = infos[e['tid']]
        for clause in rej['bad']:
            sig = {'kind': 'closure-session', 'clause': clause, 'rex': info['rex'], 'nrows0': info['nrows'] == 0}
            if e['raised'] != 'none':
                sig['error'] = e['raised'].split(':')[0]
                if 'n_failures' in e['raised'] and 'n_failures' in info['kinds']:
                    sig['fieldname'] = 'n_failures'
                else:
                    m = re.search(r'cannot insert (\S+_ok), already exists', e['raised'])
                    if m and m.group(1) in info['kinds']:
                        sig['fieldname'] = 'named like a detection output column (<field>_<kind>_ok)'
            if e.get('failed'):
                sig['failed'] = ','.join(sorted(set(e['failed'])))
                if all(x.endswith(':rex') for x in e['failed']) and info.get('rexes'):
                    # the frame fails only its own rex constraints: C03's business unless no named deviation explains it
                    from harness import rex_runs as rr
                    from checks import c03
                    causes = set()
                    for f, strs in info.get('strings', {}).items():
                        for x in strs:
                            causes |= rr.char_causes(x, 'portable', info['rexes'].get(f, []))
                    sig = {'kind': 'closure-session', 'clause': 'RexClosure', 'cause': c03.primary(causes)}
            elif len(set(info['kinds'].values())) == 1:
                sig['colkind'] = list(info['kinds'].values())[0]
            chk.violation(sig, {'event': e, 'column_kinds': info['kinds'], 'nrows': info['nrows'], 'path': info['path'],
                                'frame_head': json.loads(json.dumps(info['frame'], default=str)),
                                'how': 'recorded session judged by spec/Trace_VerifySession.tla'})
    if events:
        chk.sample({'session_events': events[:5]})
    chk.coverage['rule'] = ('closure: every column of <= N cells over the value grid x dtype variants x rex; sessions: '
                            'random frames of 0..30 rows x 1..3 columns over 21 column kinds (all recognised dtypes, '
                            'specials, extremes, unicode, > 20 categories) x rex x dict/file x verify/detect x repair')
    chk.coverage['exhaustive'] = True
    chk.assume('that rexpy expressions match their examples is C03; here discovery with rex runs the real rexpy')


def replay(path):
    print(json.dumps(json.load(open(path)), indent=1)[:6000])
    return 0
