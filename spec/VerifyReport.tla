---------------------------- MODULE VerifyReport ----------------------------
(***************************************************************************)
(* The result object of a verification and its report (C02, last sentence   *)
(* of the statement and "every report mode" of its quantifier).             *)
(*                                                                         *)
(* A verification result is a map  field -> kind -> verdict  with verdicts  *)
(* "T" (satisfied), "F" (not satisfied), "N" (not verified).  Everything    *)
(* else the object offers is a function of that map and of the report mode: *)
(*   totals, per-field counts, the tabular form, and the printed report     *)
(*   (mode "all": every field; "fields": only fields with a failure).       *)
(* The report mode never changes a verdict.                                  *)
(***************************************************************************)
EXTENDS Integers, FiniteSets, Sequences

Count(fv, m) == Cardinality({k \in DOMAIN fv : fv[k] = m})
Failing(v)   == {f \in DOMAIN v : Count(v[f], "F") > 0}
Listed(v, mode) == IF mode = "all" THEN DOMAIN v ELSE Failing(v)
RECURSIVE SumOver(_, _, _)
SumOver(v, S, m) == IF S = {} THEN 0
                    ELSE LET f == CHOOSE x \in S : TRUE IN Count(v[f], m) + SumOver(v, S \ {f}, m)
Passes(v)   == SumOver(v, DOMAIN v, "T")
Failures(v) == SumOver(v, DOMAIN v, "F")

\* adding null-valued constraints: the added ones are satisfied, nothing else moves
NullNeutral(base, withnull, added) ==
    /\ \A f \in DOMAIN added : \A i \in 1..Len(added[f]) :
           added[f][i] \in DOMAIN withnull[f] /\ withnull[f][added[f][i]] = "T"
    /\ \A f \in DOMAIN base : \A k \in DOMAIN base[f] :
           f \in DOMAIN withnull /\ k \in DOMAIN withnull[f] /\ withnull[f][k] = base[f][k]
=============================================================================
