CONSTANTS
  Defects = {}
  EmitRows = TRUE
INIT Init
NEXT Next
INVARIANT NeverRaises
INVARIANT NumericIsSpec
INVARIANT NamedIsSpec
INVARIANT EmitCase
CHECK_DEADLOCK FALSE
