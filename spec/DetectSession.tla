---------------------------- MODULE DetectSession ----------------------------
(***************************************************************************)
(* Detection runs and what they leave behind (C06, the record-level and     *)
(* file-level part).  The per-constraint flags come from ConstraintSem;     *)
(* here: failure counts, the passing/failing partition, which records are   *)
(* output, and the life of the output file across runs.                     *)
(*                                                                         *)
(*   outfile  "absent" | "stale" (left by an earlier run or by anybody) |   *)
(*            "fresh" (written by the last run)                             *)
(*   input    what the last run did to the frame it was given:              *)
(*            "intact" | "extended" (in-place detection added columns)      *)
(***************************************************************************)
EXTENDS Naturals, Sequences, FiniteSets, TLC

VARIABLES outfile, input, last
dvars == <<outfile, input, last>>

\* flags: sequence (one entry per FAILED constraint) of sequences of "T"/"F"/"N", all of length n
NFail(flags, i)     == Cardinality({c \in 1..Len(flags) : flags[c][i] = "F"})
NFailSeq(flags, n)  == [i \in 1..n |-> NFail(flags, i)]
Failing(flags, n)   == {i \in 1..n : NFail(flags, i) > 0}
OutRows(flags, n, writeAll) == IF writeAll THEN 1..n ELSE Failing(flags, n)

DInit == outfile \in {"absent", "stale"} /\ input = "intact" /\ last = [act |-> "none"]

\* somebody (an earlier run, another program) leaves a file at the output path
StaleFileAppears ==
    /\ outfile' = "stale"
    /\ UNCHANGED input
    /\ last' = [act |-> "Stale"]

\* one detection run; anyFailed = some constraint failed; withPath = an output path was given
DetectRun(anyFailed, withPath, inPlace) ==
    /\ outfile' = IF withPath THEN (IF anyFailed THEN "fresh" ELSE "absent") ELSE outfile
    /\ input' = IF inPlace /\ anyFailed THEN "extended" ELSE "intact"
    /\ last' = [act |-> "Detect", anyFailed |-> anyFailed, withPath |-> withPath, inPlace |-> inPlace]

DNext == \/ StaleFileAppears
         \/ \E a, w, p \in BOOLEAN : DetectRun(a, w, p)
DSpec == DInit /\ [][DNext]_dvars

\* C06: an output file exists afterwards only if some constraint failed
OutfileIffFailure ==
    (last.act = "Detect" /\ last.withPath) => ((outfile = "fresh") <=> last.anyFailed) /\ outfile # "stale"
\* the input frame is unchanged unless in-place output is requested
InputUnchanged == [][(last'.act = "Detect" /\ ~last'.inPlace) => input' = "intact"]_dvars
NoPathNoFile   == [][(last'.act = "Detect" /\ ~last'.withPath) => outfile' = outfile]_dvars
=============================================================================
