------------------------------- MODULE Trace_Cli -------------------------------
(* One line per invocation of the tdda command line on real files. *)
EXTENDS Naturals, Sequences, FiniteSets, TLC, Json, IOUtils, TLCExt
Tr == ndJsonDeserialize(IOEnv.TRACE_FILE)
VARIABLE l
Init == l = 1
Next == l <= Len(Tr) /\ l' = l + 1
\* (an uncaught exception ends the process with a non-zero status: for an erroring invocation that is
\* what the property asks; for a valid one it is a failure)
Bad(e) == (IF e.expectzero /\ ~e.exitzero THEN {"ValidInvocationSucceeds"} ELSE {})
          \cup (IF ~e.expectzero /\ e.exitzero THEN {"ErrorsExitNonZero"} ELSE {})
          \cup (IF ~e.expectzero /\ e.outputleft THEN {"ErrorsLeaveNoOutput"} ELSE {})
          \cup (IF e.expectzero /\ e.exitzero /\ ~e.sameaslib THEN {"CliEqualsLibrary"} ELSE {})
          \cup (IF e.expectzero /\ e.exitzero /\ ~e.closure THEN {"DiscoverThenVerifyClean"} ELSE {})
Judge == l <= Len(Tr) => LET b == Bad(Tr[l]) IN b = {} \/ PrintT(ToJson([line |-> l, tid |-> Tr[l].tid, bad |-> b]))
AllConsumed == PrintT(ToJson([consumed |-> TLCGet("stats").diameter - 1, lines |-> Len(Tr)]))
=============================================================================
