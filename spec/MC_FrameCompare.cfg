CONSTANTS
  EmitRows = FALSE
INIT Init
NEXT Next
INVARIANT ImplIsSpec
INVARIANT CopyPasses
INVARIANT SingleMutationFails
INVARIANT NeverError
INVARIANT EmitCase
CHECK_DEADLOCK FALSE
