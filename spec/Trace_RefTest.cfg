CONSTANTS
  Kinds <- TrKinds
  Paths <- TrPaths
  Contents <- TrContents
  Types <- TrTypes
  Arity <- TrArity
INIT TraceInit
NEXT TraceNext
INVARIANT Conforms
CONSTRAINT StopAtRejection
PROPERTY OnlyOnRequest
PROPERTY NormalModeFrame
PROPERTY ExactlySelected
INVARIANT RegenWritesActual
INVARIANT RegenThenPass
POSTCONDITION Consumed
CHECK_DEADLOCK FALSE
