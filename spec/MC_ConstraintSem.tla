-------------------------- MODULE MC_ConstraintSem --------------------------
(* Exhaustive instance of ConstraintSem: every column of <= MaxCells cells    *)
(* over the value grid of each type, and for each column the family of        *)
(* constraints on, just inside and just outside every boundary of its own     *)
(* statistics (plus fixed ones).  One state per column (built cell by cell    *)
(* so that the workers share the work); per state the invariants are checked  *)
(* for the whole family and the case row is written for replay.               *)
EXTENDS ConstraintSem, Json

CONSTANTS MaxCells, EmitRows, ColTypes
VARIABLE col

MCStrLen   == <<0, 1, 1, 2, 3>>                     \* ids 1..5: "", "a", "b", "ab", "abc"-like
MCRexMatch == <<{1}, {2, 3}, {2, 3, 4, 5}, {4, 5}, {1, 2, 3, 4, 5}>>     \* the fourth is a prefix pattern (no trailing $)

Grid(t) == CASE t = "real"   -> {-16, -12, -8, 0, 4, 8, 12, 16}
             [] t = "int"    -> {-16, -8, 0, 8, 16}
             [] t = "bool"   -> {0, 1}
             [] t = "date"   -> {10, 11, 12, 20}
             [] t = "string" -> {1, 2, 3, 4, 5}

Init == \E t \in ColTypes : col = [t |-> t, v |-> <<>>]
Next == /\ Len(col.v) < MaxCells
        /\ \E x \in Grid(col.t) \cup {Null} : col' = [col EXCEPT !.v = Append(@, x)]

----------------------------------------------------------------------------
(* constraint family of a column *)
EpsSet == {<<0, 1>>, <<1, 100>>, <<1, 4>>, <<1, 2>>}
Con(k, val, tset, iset, sgn, vt, prec, eps, tc) ==
    [k |-> k, isnull |-> FALSE, val |-> val, tset |-> tset, iset |-> iset, sgn |-> sgn, vt |-> vt,
     prec |-> prec, eps |-> eps, tc |-> tc]
MkB(k, b, vt, prec, eps) == Con(k, b, {}, {}, "none", vt, prec, eps, "sloppy")       \* bound
MkI(k, n)                == Con(k, n, {}, {}, "none", "int", "fuzzy", <<0, 1>>, "sloppy")
MkT(A, tc)               == Con("type", 0, A, {}, "none", "string", "fuzzy", <<0, 1>>, tc)
MkS(sg)                  == Con("sign", 0, {}, {}, sg, "string", "fuzzy", <<0, 1>>, "sloppy")
MkSet(k, S)              == Con(k, 0, {}, S, "none", "string", "fuzzy", <<0, 1>>, "sloppy")
MkNull(k) == [Con(k, 0, {}, {}, "none", "int", "fuzzy", <<0, 1>>, "sloppy") EXCEPT !.isnull = TRUE]

Step(t) == IF t = "real" THEN 4 ELSE IF t = "int" THEN 8 ELSE 1
\* bounds on / inside / outside the extremes of the data, zero, and the far side
Bounds(c) ==
    LET S == NNVals(c)
        base == IF S = {} THEN {0} ELSE {SMin(S), SMax(S)} IN
    {b + d * Step(c.t) : b \in base, d \in {-1, 0, 1}} \cup {0}
    \cup (IF c.t = "real" THEN {b + d : b \in base, d \in {-1, 1}} ELSE {})     \* 1/8 off the boundary

\* on-boundary fuzz: with eps = 1/4 or 1/2 the fuzzed bound can coincide with a data value; with
\* eps = 1/100 it never does on this grid (DESIGN 4.1)
MinMaxFamily(c) ==
    IF c.t = "string" THEN {}
    ELSE {MkB(k, b, c.t, p, e) :
             k \in {"min", "max"}, b \in Bounds(c), p \in {"fuzzy", "closed", "open"}, e \in EpsSet}
         \cup (IF c.t = "date" THEN {MkB(k, 0, "int", "fuzzy", <<0, 1>>) : k \in {"min", "max"}} ELSE {})  \* ill-typed bound
EpsMatters(con) == con.k \in {"min", "max"} /\ con.prec = "fuzzy"
Pruned(F) == {con \in F : EpsMatters(con) \/ con.eps = <<0, 1>>}

TypeSets == (SUBSET {"bool", "int", "real", "date", "string"}) \ {{}}
Family(c) ==
    Pruned(MinMaxFamily(c))
    \cup {MkT(A, tc) : A \in TypeSets, tc \in {"strict", "sloppy"}}
    \cup {MkS(sg) : sg \in {"positive", "non-negative", "zero", "non-positive", "negative", "null"}}
    \cup {MkI("max_nulls", n) : n \in 0..2}
    \cup {MkI("no_duplicates", 1)}
    \cup {MkI(k, n) : k \in {"min_length", "max_length"}, n \in 0..4}
    \cup (IF c.t = "string"
          THEN {MkSet("allowed_values", A) :
                   A \in {{}, {1}, {2, 3}, {1, 2, 3, 4}, {1, 2, 3, 4, 5}, NNVals(c), NNVals(c) \ {SMax(NNVals(c) \cup {1})}}}
               \cup {MkSet("rex", R) : R \in {{}, {1}, {2}, {3}, {2, 4}, {1, 3}, {5}}}       \* (an empty list is a list no value matches, not a null)
          ELSE {MkSet("allowed_values", {1, 2}), MkSet("rex", {5})})
    \cup {MkNull(k) : k \in {"type", "min", "max", "min_length", "max_length", "sign", "max_nulls",
                             "no_duplicates", "allowed_values", "rex"}}

----------------------------------------------------------------------------
(* invariants: one line per claim *)
ImplIsSpec      == \A con \in Family(col) : Demanded(con, col) => (ImplSat(con, col) = SpecSat(con, col))
\* (null-valued constraints included: the field's absence is looked at first, for every kind)
MissingFails    == \A con \in Family(col) : (SpecSat(con, Missing) = FALSE /\ ImplSat(con, Missing) = FALSE)
NullValuedPasses == \A k \in {"type", "min", "max", "sign", "max_nulls", "rex"} : SpecSat(MkNull(k), col)
FlagsImplIsSpec == \A con \in Family(col) :
                      (FlagsDemanded(con, col) /\ ~con.isnull /\ ~SpecSat(con, col))
                         => ImplFlags(con, col) = SpecFlags(con, col)
FlagsExplain    == \A con \in Family(col) : FlagsExplainVerdict(con, col)
NullsUnflagged  == \A con \in Family(col) :
                      (FlagsDemanded(con, col) /\ ~con.isnull /\ ~SpecSat(con, col) /\ con.k \notin {"type", "max_nulls"})
                         => \A i \in 1..Len(col.v) : col.v[i] = Null => SpecFlag(con, col, i) # "F"
DiscoverImplIsSpec == LET s == SpecDiscover(col)
                          m == ImplDiscover(col) IN
                      /\ ("type" \in DiscoverDemandedKeys(col) => s.type = m.type)
                      /\ s.min = m.min /\ s.max = m.max /\ s.min_length = m.min_length
                      /\ s.max_length = m.max_length /\ s.max_nulls = m.max_nulls /\ s.allowed = m.allowed
                      /\ ("sign" \in DiscoverDemandedKeys(col) => s.sign = m.sign)
                      /\ ("no_duplicates" \in DiscoverDemandedKeys(col) => s.no_duplicates = m.no_duplicates)
ClosureHolds   == Closure(col)
AttainedHolds  == Attained(col)

ConRow(con) == [k |-> con.k, isnull |-> con.isnull, val |-> con.val, tset |-> con.tset, iset |-> con.iset,
                sgn |-> con.sgn, vt |-> con.vt, prec |-> con.prec,
                eps |-> con.eps, tc |-> con.tc, dem |-> Demanded(con, col),
                spec |-> SpecSat(con, col), impl |-> ImplSat(con, col),
                fdem |-> FlagsDemanded(con, col) /\ ~con.isnull,
                sflags |-> IF FlagsDemanded(con, col) /\ ~con.isnull /\ ~SpecSat(con, col) THEN SpecFlags(con, col) ELSE <<>>,
                iflags |-> IF ~con.isnull /\ ~ImplSat(con, col) THEN ImplFlags(con, col) ELSE <<>>]
EmitCase == EmitRows =>
    PrintT(ToJson([col |-> col, cons |-> {ConRow(con) : con \in Family(col)},
                   disc |-> SpecDiscover(col), idisc |-> ImplDiscover(col),
                   dkeys |-> DiscoverDemandedKeys(col)]))
=============================================================================
