--------------------------- MODULE MC_VerifyReport ---------------------------
(* Every verdict map over 2 fields x 3 kinds (a kind may be absent from a field): the algebra the   *)
(* trace judge relies on - the fields listed in mode "fields" are exactly those that contribute to   *)
(* the failure total; totals are the sums of the per-field counts; a map without failures lists     *)
(* nothing in mode "fields".                                                                        *)
EXTENDS VerifyReport, TLC
Kinds == {"min", "max", "type"}
Marks == {"T", "F", "N"}
FieldMaps == UNION {[S -> Marks] : S \in SUBSET Kinds}
VARIABLE v
Init == v \in [{"a", "b"} -> FieldMaps]
Next == UNCHANGED v
ListedSubset == Listed(v, "fields") \subseteq Listed(v, "all")
FailuresIffListed == (Failures(v) > 0) <=> (Listed(v, "fields") # {})
TotalsAreSums == /\ Passes(v) = Count(v["a"], "T") + Count(v["b"], "T")
                 /\ Failures(v) = Count(v["a"], "F") + Count(v["b"], "F")
                 /\ Passes(v) + Failures(v) + SumOver(v, DOMAIN v, "N") = Cardinality(DOMAIN v["a"]) + Cardinality(DOMAIN v["b"])
NullNeutralReflexive == NullNeutral(v, v, [f \in {"a", "b"} |-> <<>>])
=============================================================================
