------------------------------ MODULE Trace_Csvw ------------------------------
(* One line per real load of a CSV file through its CSVW description. *)
EXTENDS Naturals, Sequences, FiniteSets, TLC, Json, IOUtils, TLCExt
Tr == ndJsonDeserialize(IOEnv.TRACE_FILE)
VARIABLE l
Init == l = 1
Next == l <= Len(Tr) /\ l' = l + 1
Bad(e) == (IF e.raised = "none" THEN {} ELSE {"LoadsWithoutError"})
          \cup (IF e.raised # "none" \/ e.names_ok THEN {} ELSE {"ColumnNamesAsDeclared"})
          \cup (IF e.raised # "none" \/ e.rows_ok THEN {} ELSE {"EveryRowLoaded"})
          \cup (IF e.raised # "none" \/ e.dtypes_ok THEN {} ELSE {"TypesAsDeclared"})
          \cup (IF e.raised # "none" \/ e.values_ok THEN {} ELSE {"ValuesPreserved"})
          \cup (IF e.raised # "none" \/ e.nulls_ok THEN {} ELSE {"NullsPreserved"})
Judge == l <= Len(Tr) => LET b == Bad(Tr[l]) IN b = {} \/ PrintT(ToJson([line |-> l, tid |-> Tr[l].tid, bad |-> b]))
AllConsumed == PrintT(ToJson([consumed |-> TLCGet("stats").diameter - 1, lines |-> Len(Tr)]))
=============================================================================
