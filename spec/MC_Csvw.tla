------------------------------- MODULE MC_Csvw -------------------------------
(* every date / date-time pattern composed from the documented fields *)
EXTENDS Csvw, Json
CONSTANTS EmitRows
VARIABLES fmt, stage

DaySet == {"d", "dd"}   MonSet == {"M", "MM"}   YearSet == {"yy", "yyyy"}
DateSeps == {"-", "/", ".", " "}
Orders == {<<1, 2, 3>>, <<2, 1, 3>>, <<3, 2, 1>>, <<3, 1, 2>>}      \* d M y, M d y, y M d, y d M
DateParts == {LET parts == <<dd, mm, yy>> IN <<parts[o[1]], sep, parts[o[2]], sep, parts[o[3]]>> :
                 dd \in DaySet, mm \in MonSet, yy \in YearSet, sep \in DateSeps, o \in Orders}
TimeParts == {<<>>, <<"HH", ":", "mm">>, <<"HH", ":", "mm", ":", "ss">>}
             \cup {<<"HH", ":", "mm", ":", "ss", ".", fr>> : fr \in {"S", "SS", "SSS"}}
Joiners == {" ", "T"}

Init == fmt = <<>> /\ stage = "date"
Next == \/ (stage = "date" /\ \E dp \in DateParts : fmt' = dp /\ stage' = "time")
        \/ (stage = "time" /\ \E tp \in TimeParts \ {<<>>}, j \in Joiners : fmt' = fmt \o <<j>> \o tp /\ stage' = "done")

TranslateIsSpec == ImplTranslate(Text(fmt)) = SpecTranslate(fmt)

MdSpace == [header : {"absent", "true", "false"}, hrc : {"absent", "0", "1"}, titles : BOOLEAN,
            delim : {"absent", ",", "|", "TAB", ";"}, enc : {"absent", "utf-8", "latin-1", "utf-16"}]
KwIsSpec == \A md \in MdSpace : WellFormedMd(md) => ImplKw(md) = SpecKw(md)
EmitCase == (EmitRows /\ fmt # <<>>) =>
    PrintT(ToJson([items |-> fmt, text |-> Text(fmt), spec |-> Final(SpecTranslate(fmt)), impl |-> Final(ImplTranslate(Text(fmt)))]))
=============================================================================
