CONSTANTS
  EmitRows = TRUE
  MaxFlags = 4
INIT Init
NEXT Next
INVARIANT KwIsSpec
INVARIANT EmitCase
CHECK_DEADLOCK FALSE
