---------------------------- MODULE Trace_RefTest ----------------------------
(* Trace validation for RefTest.  The NDJSON file holds many recorded         *)
(* sessions of the real ReferenceTest; each starts with an "Init" line that   *)
(* carries the reference directory, followed by SetRegeneration / Assert      *)
(* lines with what was observed afterwards (outcome class, files touched,      *)
(* reference contents).  The regeneration table is NOT logged: it is          *)
(* reconstructed by the specification's own actions.                          *)
EXTENDS RefTest, Json, IOUtils, TLCExt

Tr == ndJsonDeserialize(IOEnv.TRACE_FILE)
VARIABLE l
ToSet(s) == {s[i] : i \in 1..Len(s)}

TrKinds    == {"k0", "k1", "k2", "k3"}
TrPaths    == {"p0", "p1", "p2", "p3", "p4", "p5", "p6", "p7", "p8", "p9"}
TrContents == {"c0", "c1", "c2", "c3", "c4", "c5", "c6", "c7", "c8", "c9", "c10", "c11", "c12", "c13",
               "c14", "c15", "c16", "c17", "c18", "c19", "other"}
TrTypes    == {"string", "textfile", "textfiles", "binary", "dataframe", "ondisk", "csvframe", "csv2pq", "csvlegacy"}
TrArity    == [t \in TrTypes |-> IF t = "textfiles" THEN 2 ELSE 1]

FullRefs(r) == [p \in Paths |-> IF p \in DOMAIN r THEN r[p] ELSE Absent]

TraceInit == \E i \in {j \in 1..Len(Tr) : Tr[j].ev = "Init"} :
                /\ l = i + 1
                /\ regen = [k \in KindKeys |-> Unset]
                /\ refs = FullRefs(Tr[i].refs)
                /\ last = None
Step(e) == CASE e.ev = "SetRegeneration" -> SetRegeneration(e.kind, e.flag)
             [] e.ev = "Assert" -> AssertRef(e.type, e.kind, e.paths, e.actual)
TraceNext == /\ l <= Len(Tr)
             /\ Tr[l].ev # "Init"
             /\ Step(Tr[l])
             /\ l' = l + 1

\* what the real code did (line l-1) against what the specification's action produced
OutcomeClass(o) == IF o \in {"pass", "regenerated"} THEN {"ok"}
                   ELSE {"fail", "error"}   \* how a failing comparison is reported is C04/C05's business
Bad == IF l = 1 \/ Tr[l-1].ev # "Assert" THEN {}
       ELSE LET e == Tr[l-1] IN
            (IF FullRefs(e.refs) = refs THEN {} ELSE
                 IF last.wrote = {} THEN {"NormalModeLeavesReferencesAlone"} ELSE {"RegenerationWritesTheActual"})
            \cup (IF ToSet(e.wrote) = last.wrote THEN {} ELSE
                 IF ToSet(e.wrote) \subseteq last.wrote THEN {"RegenerateWhenSelected"} ELSE {"WriteOnlyOnRequest"})
            \cup (IF e.outcome \in OutcomeClass(last.outcome) THEN {} ELSE {"Outcome_" \o last.outcome})
Conforms == Bad = {} \/ PrintT(ToJson([line |-> l - 1, tid |-> Tr[l-1].tid, bad |-> Bad]))
StopAtRejection == Bad = {}
\* number of Init lines = number of sessions; every session must be consumed to its end
Consumed == PrintT(ToJson([consumed |-> TLCGet("distinct") - 0, lines |-> Len(Tr)]))
=============================================================================
