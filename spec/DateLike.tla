-------------------------------- MODULE DateLike --------------------------------
(***************************************************************************)
(* gentest's date detector (C11): is_date_like on a line that holds three    *)
(* numbers n1 sep n2 sep n3 (the numeric branch) or a day, a month name and  *)
(* a year.  The transcription builds datetime(...) for every reading that     *)
(* passes its coarse range tests; building an impossible date raises.        *)
(* The property needs: whatever the text, the detector answers (a match or   *)
(* None) and never raises.                                                   *)
(***************************************************************************)
EXTENDS Naturals, FiniteSets, TLC

CONSTANTS Defects
DefectNames == {"ConstructsImpossibleDates"}

Leap(y) == (y % 4 = 0 /\ y % 100 # 0) \/ y % 400 = 0
DaysIn(m, y) == CASE m \in {1, 3, 5, 7, 8, 10, 12} -> 31 [] m \in {4, 6, 9, 11} -> 30 [] m = 2 -> (IF Leap(y) THEN 29 ELSE 28)
ValidDate(y, m, d) == 1 <= y /\ y <= 9999 /\ 1 <= m /\ m <= 12 /\ 1 <= d /\ d <= DaysIn(m, y)

\* one reading of the three numbers: "date" (a date was built; the line is date-like when no window is
\* given), "raises" (datetime() refused the values), "skip" (the coarse tests rule this reading out)
Reading(day, mon, year, dayOK, monOK) ==
    IF ~(dayOK /\ monOK) THEN "skip"
    ELSE IF ValidDate(year, mon, day) THEN "date"
    ELSE IF "ConstructsImpossibleDates" \in Defects THEN "raises" ELSE "skip"

\* the numeric branch, in the order the code tries the readings; the first "date" or "raises" decides
ImplNumeric(n1, n2, n3) ==
    LET possDay(n) == 1 <= n /\ n <= 31
        possMon(n) == 1 <= n /\ n <= 12
        r1 == Reading(n1, n2, n3, possDay(n1), possMon(n2))        \* dd/mm/yyyy
        r2 == Reading(n3, n2, n1, possDay(n3), possMon(n2))        \* yyyy/mm/dd
        r3 == Reading(n2, n1, n3, possDay(n2), possMon(n1))        \* mm/dd/yyyy
    IN IF r1 # "skip" THEN r1 ELSE IF r2 # "skip" THEN r2 ELSE IF r3 # "skip" THEN r3 ELSE "none"

\* the month-name branches: D month Y (European) and month D, Y (US)
ImplNamed(d, mon, y) == IF ~(1 <= d /\ d <= 31) THEN "none"
                        ELSE IF ValidDate(y, mon, d) THEN "date"
                        ELSE IF "ConstructsImpossibleDates" \in Defects THEN "raises" ELSE "none"

\* the specification: a line is date-like iff some reading of its numbers is a real calendar date
SpecNumeric(n1, n2, n3) == IF ValidDate(n3, n2, n1) \/ ValidDate(n1, n2, n3) \/ ValidDate(n3, n1, n2) THEN "date" ELSE "none"
SpecNamed(d, mon, y) == IF ValidDate(y, mon, d) THEN "date" ELSE "none"
=============================================================================
