CONSTANTS
  Defects = {}
  EmitRows = TRUE
INIT Init
NEXT Next
INVARIANT ExecutedIsSpec
INVARIANT ListedIsSpec
INVARIANT TaggedRunsOnlyTagged
INVARIANT UntaggedRunsAll
INVARIANT ListingRunsNone
INVARIANT EmitCase
CHECK_DEADLOCK FALSE
