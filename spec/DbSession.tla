------------------------------- MODULE DbSession -------------------------------
(***************************************************************************)
(* Discovery and verification on a database table (C08; C07 on the SQL      *)
(* side).  One column of a table: discover its constraints, verify them     *)
(* against the same table (closure), then add ONE row that breaks one       *)
(* discovered constraint and verify again: that constraint must fail.       *)
(* The meaning of constraints is ConstraintSem's.                           *)
(***************************************************************************)
EXTENDS ConstraintSem

VARIABLES table, disc, perturbed, verdicts, phase
dbvars == <<table, disc, perturbed, verdicts, phase>>

Step(t) == IF t = "real" THEN 4 ELSE IF t = "int" THEN 8 ELSE 1
StrIds == 1..Len(StrLen)
ConOf(k, d) == CHOOSE c \in DiscoveredCons(d) : c.k = k
HasCon(k, d) == \E c \in DiscoveredCons(d) : c.k = k

\* the single rows that break one discovered constraint: [k |-> kind, v |-> the new cell]
Perturbs(col) ==
    LET d == SpecDiscover(col)
        S == NNVals(col) IN
    \* (a boolean column has no value beyond its extremes)
    (IF HasCon("min", d) /\ col.t # "bool" THEN {[k |-> "min", v |-> d.min - Step(col.t)]} ELSE {})
    \cup (IF HasCon("max", d) /\ col.t # "bool" THEN {[k |-> "max", v |-> d.max + Step(col.t)]} ELSE {})
    \cup (IF HasCon("min_length", d) THEN {[k |-> "min_length", v |-> s] : s \in {x \in StrIds : StrLen[x] < d.min_length}} ELSE {})
    \cup (IF HasCon("max_length", d) THEN {[k |-> "max_length", v |-> s] : s \in {x \in StrIds : StrLen[x] > d.max_length}} ELSE {})
    \cup (IF HasCon("allowed_values", d) THEN {[k |-> "allowed_values", v |-> s] : s \in StrIds \ S} ELSE {})
    \* (no_duplicates is discovered for string and integer fields only: DiscoverDemandedKeys)
    \cup (IF HasCon("no_duplicates", d) /\ col.t \in {"string", "int"} THEN {[k |-> "no_duplicates", v |-> s] : s \in S} ELSE {})
    \cup (IF HasCon("max_nulls", d) THEN {[k |-> "max_nulls", v |-> Null]} ELSE {})
    \cup (IF HasCon("sign", d) /\ d.sign \in {"positive", "non-negative"} /\ col.t # "bool"
          THEN {[k |-> "sign", v |-> 0 - 8]} ELSE {})
    \cup (IF HasCon("sign", d) /\ d.sign \in {"negative", "non-positive", "zero"} /\ col.t # "bool"
          THEN {[k |-> "sign", v |-> 8]} ELSE {})
\* (a max_nulls of 1 is broken by the second null: the perturbation adds one null to a column that has one)
Extended(col, v) == [col EXCEPT !.v = Append(@, v)]
Breaks(col, pb) ==
    LET c == ConOf(pb.k, SpecDiscover(col)) IN
    IF pb.k = "max_nulls" THEN NullCount(Extended(col, pb.v)) > c.val
    ELSE ~SpecSat(c, Extended(col, pb.v))

\* the session: discover, verify, add one breaking row, verify again
DbInit == table = Missing /\ disc = <<>> /\ perturbed = "none" /\ verdicts = {} /\ phase = "created"
DbDiscover == /\ phase = "created" /\ phase' = "discovered"
              /\ UNCHANGED <<table, disc, perturbed, verdicts>>
\* failedKinds: the constraint kinds reported as failed by this verification
DbVerify(failedKinds) ==
    /\ phase \in {"discovered", "perturbed"}
    /\ verdicts' = failedKinds
    /\ UNCHANGED <<table, disc, perturbed, phase>>
DbAddRow(k) == /\ phase = "discovered" /\ phase' = "perturbed" /\ perturbed' = k
               /\ verdicts' = {"not-verified-yet"}
               /\ UNCHANGED <<table, disc>>
\* C08 on a session: nothing fails before the breaking row; afterwards the broken constraint does
SessionClosure == phase = "discovered" => verdicts = {}
SessionNotices == (phase = "perturbed" /\ verdicts # {"not-verified-yet"}) => perturbed \in verdicts

\* C08 at the operator level (checked on every grid column by MC_DbSession)
DbClosure(col) == \A c \in DiscoveredCons(SpecDiscover(col)) : SpecSat(c, col)
Notices(col)   == \A pb \in Perturbs(col) : Breaks(col, pb) /\ ~ImplSat(ConOf(pb.k, SpecDiscover(col)), Extended(col, pb.v))
=============================================================================
