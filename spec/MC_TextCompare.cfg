CONSTANTS
  Defects = {}
  MaxLines = 2
  EmitRows = TRUE
  PoolName = "p12"
INIT Init
NEXT Next
INVARIANT ImplIsSpec
INVARIANT UnexcusedIsSpec
INVARIANT IdenticalAlwaysPasses
INVARIANT UnexcusedFails
INVARIANT EmitCase
CHECK_DEADLOCK FALSE
