----------------------------- MODULE Trace_Argv -----------------------------
(* Trace validation for Argv: every line of the NDJSON file is one recorded   *)
(* run of the real code (ev = "Flags": _set_flags_from_argv; ev = "Run": a     *)
(* whole ReferenceTestCase.main run on a generated module).  One state per    *)
(* line; the clauses of the specification that the line contradicts are       *)
(* printed, so a rejected line names its failing clause.                      *)
EXTENDS Argv, Json, IOUtils, TLCExt

Tr == ndJsonDeserialize(IOEnv.TRACE_FILE)
VARIABLE l

ToSet(s) == {s[i] : i \in 1..Len(s)}
ModOf(e) == [c \in {e.module[i].cls : i \in 1..Len(e.module)} |->
               LET r == CHOOSE x \in ToSet(e.module) : x.cls = c
               IN [ctag |-> r.ctag, tests |-> ToSet(r.tests)]]
NamesOf(sf) == {sf.argv[i][1] : i \in {j \in 2..Len(sf.argv) : IsName(sf.argv[j])}}

FlagsBad(e) ==
    LET sf == SpecFlags(e.argv)
        ob == [argv |-> e.out, regen |-> e.regen, tagged |-> e.tagged, check |-> e.check,
               quiet |-> e.quiet, kinds |-> ToSet(e.kinds), raised |-> e.raised]
    IN  (IF WellShaped(e.argv) THEN {} ELSE {"NotWellShaped"})
        \cup (IF sf.raised = ob.raised THEN {} ELSE {"Raised"})
        \cup (IF ob.raised \/ (Len(ob.argv) >= 1 /\ Tail(ob.argv) = Tail(sf.argv)) THEN {} ELSE {"ArgvLeftForUnittest"})
        \cup (IF ob.raised \/ ob.regen = sf.regen THEN {} ELSE {"RegenerateAll"})
        \cup (IF ob.raised \/ ob.kinds = sf.kinds THEN {} ELSE {"RegenerateKinds"})
        \cup (IF ob.raised \/ ob.check \/ ob.tagged = sf.tagged THEN {} ELSE {"Tagged"})
        \cup (IF ob.raised \/ ob.check = sf.check THEN {} ELSE {"Check"})
        \cup (IF ob.raised \/ ob.quiet = sf.quiet THEN {} ELSE {"Quiet"})

RunBad(e) ==
    LET sf == SpecFlags(e.argv)
        M  == ModOf(e)
        nm == NamesOf(sf)
        ex == {<<e.executed[i][1], e.executed[i][2]>> : i \in 1..Len(e.executed)}
    IN  (IF WellShaped(e.argv) /\ nm \subseteq DOMAIN M THEN {} ELSE {"NotWellShaped"})
        \cup (IF ex = SpecExecuted(M, nm, sf.tagged, sf.check) THEN {} ELSE {"ExecutedIsSpec"})
        \cup (IF Cardinality(ex) = Len(e.executed) THEN {} ELSE {"EachOnce"})
        \cup (IF ToSet(e.listed) = SpecListed(M, nm, sf.check) THEN {} ELSE {"ListedIsSpec"})
        \cup (IF e.error = "none" THEN {} ELSE {"NoError"})

\* the pytest entry point: the same selection semantics, options given as such (no argv scanner of tdda's own)
PyRunBad(e) ==
    LET M  == ModOf(e)
        nm == ToSet(e.names)
        ex == {<<e.executed[i][1], e.executed[i][2]>> : i \in 1..Len(e.executed)}
    IN  (IF nm \subseteq DOMAIN M THEN {} ELSE {"NotWellShaped"})
        \cup (IF ex = SpecExecuted(M, nm, e.tagged, e.check) THEN {} ELSE {"ExecutedIsSpec"})
        \cup (IF Cardinality(ex) = Len(e.executed) THEN {} ELSE {"EachOnce"})
        \cup (IF ToSet(e.listed) = SpecListed(M, nm, e.check) THEN {} ELSE {"ListedIsSpec"})
        \cup (IF e.error = "none" THEN {} ELSE {"NoError"})

Bad(e) == IF e.ev = "Flags" THEN FlagsBad(e) ELSE IF e.ev = "Run" THEN RunBad(e)
          ELSE IF e.ev = "PyRun" THEN PyRunBad(e) ELSE {"UnknownEvent"}

Init == l = 1
Next == l <= Len(Tr) /\ l' = l + 1
Judge == l <= Len(Tr) => LET b == Bad(Tr[l]) IN
           b = {} \/ PrintT(ToJson([line |-> l, tid |-> Tr[l].tid, bad |-> b]))
AllConsumed == PrintT(ToJson([consumed |-> TLCGet("stats").diameter - 1, lines |-> Len(Tr)]))
=============================================================================
