\* the pinned tree's scanner (writes the cleaned argument one position early): ImplIsSpec must FAIL
CONSTANTS
  Defects = {"ArgvWriteOneEarly"}
  MaxArgs = 2
  EmitRows = FALSE
INIT Init
NEXT Next
INVARIANT ImplIsSpec
CHECK_DEADLOCK FALSE
