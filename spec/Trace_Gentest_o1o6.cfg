CONSTANTS
  Outs = {"o1", "o6"}
  Others = {"in1", "in2"}
  Contents = {}
  Defects = {}
INIT TraceInit
NEXT TraceNext
INVARIANT Conforms
POSTCONDITION Consumed
CHECK_DEADLOCK FALSE
