--------------------------- MODULE Trace_FrameCompare ---------------------------
(* One line per real comparison of a rich frame with a copy or a mutated copy.    *)
EXTENDS Integers, Sequences, FiniteSets, TLC, Json, IOUtils, TLCExt
Tr == ndJsonDeserialize(IOEnv.TRACE_FILE)
VARIABLE l
Init == l = 1
Next == l <= Len(Tr) /\ l' = l + 1
\* "Prec" lines: consecutive comparisons on ONE comparison object; the frames differ by 3 * 10^-k in one cell;
\* precarg = -1 means that no precision was passed.  The verdict depends on the arguments of the call only
\* (default precision 6), never on what the object was asked before.
DefaultPrecision == 6
PrecBad(e) == LET p == IF e.precarg = -1 THEN DefaultPrecision ELSE e.precarg IN
              (IF e.outcome = "error" THEN {"NeverAnInternalError"} ELSE {})
              \cup (IF e.outcome # "error" /\ (e.outcome = "pass") # (e.k > p) THEN {"VerdictDependsOnArgumentsOnly"} ELSE {})
\* e.expect: "pass" (a copy, or a change the options exclude) | "fail" (a checked change)
Bad(e) == IF e.ev = "Prec" THEN PrecBad(e) ELSE (IF e.outcome = "error" THEN {"NeverAnInternalError"} ELSE {})
          \cup (IF e.outcome # "error" /\ e.expect = "pass" /\ e.outcome # "pass" THEN {"CopyPasses"} ELSE {})
          \cup (IF e.outcome # "error" /\ e.expect = "fail" /\ e.outcome # "fail" THEN {"CheckedChangeFails"} ELSE {})
          \cup (IF e.outcome = "fail" /\ ~e.hasmessage THEN {"FailureCarriesADescription"} ELSE {})
Judge == l <= Len(Tr) => LET b == Bad(Tr[l]) IN b = {} \/ PrintT(ToJson([line |-> l, tid |-> Tr[l].tid, bad |-> b]))
AllConsumed == PrintT(ToJson([consumed |-> TLCGet("stats").diameter - 1, lines |-> Len(Tr)]))
=============================================================================
