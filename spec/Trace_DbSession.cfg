CONSTANTS
  StrLen <- TrEmpty
  RexMatch <- TrEmpty
  Defects = {}
INIT TraceInit
NEXT TraceNext
INVARIANT Conforms
POSTCONDITION Consumed
CHECK_DEADLOCK FALSE
