CONSTANTS
  Defects = {"ConstructsImpossibleDates"}
  EmitRows = FALSE
INIT Init
NEXT Next
INVARIANT NeverRaises
INVARIANT NumericIsSpec
INVARIANT NamedIsSpec
INVARIANT EmitCase
CHECK_DEADLOCK FALSE
