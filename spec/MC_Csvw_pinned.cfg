CONSTANTS
  Defects = {"HeaderFalseIgnored", "NamesOnlyWithTitles"}
  EmitRows = FALSE
INIT Init
NEXT Next
INVARIANT TranslateIsSpec
INVARIANT KwIsSpec
INVARIANT EmitCase
CHECK_DEADLOCK FALSE
