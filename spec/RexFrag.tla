------------------------------- MODULE RexFrag -------------------------------
(***************************************************************************)
(* How rexpy chooses the expression for ONE fragment of a pattern from the  *)
(* characters seen in it (C03, C13; refine_fragments, fine_class,           *)
(* escaped_bracket, adapt_for_output), on character CLASSES.                *)
(*                                                                         *)
(* Facts come from RexFragTable (generated from the running interpreter):   *)
(* MT["extra|dialect|Category"] = the classes that category's expression    *)
(* really matches.  Decisions are transcribed here.  Defects names the      *)
(* deviations of the pinned tree; Defects = {} is the repaired design,      *)
(* which must be sound for every set of classes.                            *)
(***************************************************************************)
EXTENDS Naturals, Sequences, FiniteSets, RexFragTable

CONSTANTS Defects
DefectNames == {"IsdigitNotBackslashD", "ChoiceByInternalDialect", "BracketCaretFirst"}

Extras   == {"", "_", ".-", "_.-"}
Dialects == {"perl", "portable", "grep"}
Key(x, d, cat) == x \o "|" \o d \o "|" \o cat
M(x, d, cat) == MT[Key(x, d, cat)]

\* the dialect whose expressions decide the CHOICE of category: rexpy decides with its internal
\* (perl) expressions and renders in the output dialect afterwards
ChoiceDialect(d) == IF "ChoiceByInternalDialect" \in Defects THEN "perl" ELSE d

ExtraCls(x) == (IF x \in {"_", "_.-"} THEN {UnderscoreCls} ELSE {})
               \cup (IF x \in {".-", "_.-"} THEN {DotCls, HyphenCls} ELSE {})

\* coarse_classify_char
Coarse(c, x) == IF c \in M(x, "perl", "UAlphaNumeric") THEN "C"
                ELSE IF c \in M(x, "perl", "Whitespace") THEN "W"
                ELSE IF c \in M(x, "perl", "Punctuation") THEN "P" ELSE "O"
CoarseCat(code) == CASE code = "C" -> "UAlphaNumeric" [] code = "W" -> "Whitespace"
                     [] code = "P" -> "Punctuation" [] OTHER -> "Other"

\* fine_class (for characters of coarse class C)
IsDigitFact(c, d) == IF "IsdigitNotBackslashD" \in Defects THEN c \in IsDigitCls
                     ELSE c \in M("", ChoiceDialect(d), "Digit")
FineCat(c, x, d) == IF IsDigitFact(c, d) THEN "Digit"
                    ELSE IF c \in AzCls THEN "letter"
                    ELSE IF c \in AZCls THEN "LETTER"
                    ELSE IF c \in ExtraCls(x) THEN "LETTER_"
                    ELSE "ULetter_"

GenList(x) == <<"Digit", "LETTER", "letter", "Letter", "ULetter">>
              \o (IF x # "" THEN <<"LETTER_", "letter_", "Letter_", "ULetter_">> ELSE <<>>)
              \o <<"HEX", "hex", "Hex", "ALPHANUMERIC", "alphanumeric", "AlphaNumeric", "UAlphaNumeric">>

\* refine_fragments, alphanumeric fragment with varying content: the first (most specific) category
\* whose expression matches all the characters seen
RefineGeneral(S, x, d) ==
    LET L == GenList(x)
        ok == {i \in 1..Len(L) : S \subseteq M(x, ChoiceDialect(d), L[i])} IN
    IF ok = {} THEN "UAlphaNumeric" ELSE L[CHOOSE i \in ok : \A j \in ok : i <= j]

\* escaped_bracket: ']' first, then the ordinary characters, then '\\', '^', '-'
BracketSeq(S) ==
    LET mains == S \ {RBracketCls, BackslashCls, CaretCls, HyphenCls} IN
    (IF RBracketCls \in S THEN <<RBracketCls>> ELSE <<>>)
    \o [i \in 1..Cardinality(mains) |-> CHOOSE c \in mains : Cardinality({b \in mains : b < c}) = i - 1]
    \o (IF BackslashCls \in S THEN <<BackslashCls>> ELSE <<>>)
    \o (IF CaretCls \in S THEN <<CaretCls>> ELSE <<>>)
    \o (IF HyphenCls \in S THEN <<HyphenCls>> ELSE <<>>)
\* how a regular-expression engine reads that bracket: a leading '^' negates
BracketMatches(S) ==
    LET q == BracketSeq(S) IN
    IF q # <<>> /\ q[1] = CaretCls /\ "BracketCaretFirst" \in Defects
    THEN ClassIds \ {q[i] : i \in 2..Len(q)}
    ELSE {q[i] : i \in 1..Len(q)}

MaxPuncInGroup == 5

\* the classes matched by the expression chosen for a fragment in which the classes S were seen
\* (mode "general": contents vary freely; "fine": every example has the same sequence of fine classes)
FragMatches(S, x, d, mode) ==
    LET code == Coarse(CHOOSE c \in S : TRUE, x) IN
    IF code = "C"
    THEN IF mode = "fine" THEN UNION {M(x, d, FineCat(c, x, d)) \cap {c} : c \in S}
         ELSE M(x, d, RefineGeneral(S, x, d))
    ELSE IF code = "P" /\ Cardinality(S) <= MaxPuncInGroup THEN BracketMatches(S)
    ELSE M(x, d, CoarseCat(code))

SameCoarse(S, x) == \A a, b \in S : Coarse(a, x) = Coarse(b, x)
\* C03 at the fragment level: whatever was seen in the fragment is matched by its expression
FragSound(S, x, d, mode) == (S # {} /\ SameCoarse(S, x)) => S \subseteq FragMatches(S, x, d, mode)
=============================================================================
