----------------------------- MODULE MC_TddaFile -----------------------------
EXTENDS TddaFile, Json
CONSTANTS MaxKeys, EmitRows
VARIABLE fd

Keys == Known \cup {"zzz", "#c"}
ValsOf(k) == CASE k = "type" -> {"t_date", "t_other", "t_list", "null"}
               [] k \in {"min", "max"} -> {"int", "real", "null", "string", "date_d", "date_s0", "date_s", "date_f6",
                                           "pd_num", "pd_date", "pd_null"}
               [] k = "sign" -> {"string", "null"}
               [] k = "max_nulls" -> {"int", "null"}
               [] k = "rex" -> {"list", "null"}
               [] OTHER -> {"any"}

Init == fd = <<>>
Next == /\ Len(fd) < MaxKeys
        /\ \E k \in Keys : ~HasKey(fd, k) /\ \E v \in ValsOf(k) : fd' = Append(fd, [k |-> k, v |-> v])

FixpointHolds       == Fixpoint(fd)
UnknownNeutralHolds == UnknownNeutral(fd)
OrderFreeHolds      == OrderFree(fd)
EmitCase == EmitRows => PrintT(ToJson([fd |-> fd, obj |-> ImplLoad(fd), text |-> ImplDump(ImplLoad(fd))]))
=============================================================================
