CONSTANTS
  Defects = {"IsdigitNotBackslashD", "ChoiceByInternalDialect", "BracketCaretFirst"}
  MaxClasses = 3
  EmitRows = TRUE
INIT Init
NEXT Next
INVARIANT Sound
INVARIANT EmitCase
CHECK_DEADLOCK FALSE
