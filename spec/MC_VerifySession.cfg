INIT VSInit
NEXT VSNext
INVARIANT Closure
CHECK_DEADLOCK FALSE
