INIT DInit
NEXT DNext
INVARIANT OutfileIffFailure
PROPERTY InputUnchanged
PROPERTY NoPathNoFile
CHECK_DEADLOCK FALSE
