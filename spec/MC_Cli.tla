-------------------------------- MODULE MC_Cli --------------------------------
EXTENDS Cli, Json
CONSTANTS EmitRows, MaxFlags
VARIABLES cmd, F
Init == cmd \in {"discover", "verify", "detect"} /\ F = {}
Next == Cardinality(F) < MaxFlags /\ \E f \in FlagsOf(cmd) : f \notin F /\ F' = F \cup {f} /\ UNCHANGED cmd
KwIsSpec == ImplKw(cmd, F) = SpecKw(cmd, F)
ExitIsSpec == \A i \in {"csv", "parquet", "stdin", "missing"}, c \in {"given", "default", "missing", "none"} :
                 ImplExit(cmd, F, i, c) = SpecExit(cmd, F, i, c)
EmitCase == EmitRows => PrintT(ToJson([cmd |-> cmd, flags |-> F, kw |-> SpecKw(cmd, F), contradictory |-> Contradictory(F),
                                       implrefuses |-> ImplRefuses(F)]))
=============================================================================
