CONSTANTS
  Outs = {"o1", "o5"}
  Others = {"in1", "in2"}
  Contents = {}
  Defects = {}
INIT TraceInit
NEXT TraceNext
INVARIANT Conforms
POSTCONDITION Consumed
CHECK_DEADLOCK FALSE
