---------------------------- MODULE MC_ArgvSel ----------------------------
(* Exhaustive instance of the test-selection part of Argv (C19): every module *)
(* of the classes in Classes with tests drawn from TestNames, every tag        *)
(* assignment, every set of class names on the command line, tagged/check.     *)
EXTENDS Argv, Json

CONSTANTS EmitRows
VARIABLES M, names, tagged, check

Classes   == {"A", "B"}
TestNames == {"test_1", "test_2"}
TestSets  == {ts \in SUBSET [name : TestNames, mtag : BOOLEAN] :
                 \A x, y \in ts : x.name = y.name => x = y}
ClassDefs == [ctag : BOOLEAN, tests : TestSets]
Modules   == UNION {[cs -> ClassDefs] : cs \in (SUBSET Classes) \ {{}}}

Init == /\ M \in Modules
        /\ names \in SUBSET Classes
        /\ tagged \in BOOLEAN
        /\ check \in BOOLEAN
Next == UNCHANGED <<M, names, tagged, check>>

WellFormed == names \subseteq DOMAIN M        \* naming a class the module lacks is a unittest error

ExecutedIsSpec == WellFormed => ImplExecuted(M, names, tagged, check) = SpecExecuted(M, names, tagged, check)
ListedIsSpec   == WellFormed => ImplListed(M, names, check) = SpecListed(M, names, check)
\* C19 in its own words
TaggedRunsOnlyTagged ==
    (WellFormed /\ tagged /\ ~check) =>
        \A tc \in SpecExecuted(M, names, tagged, check) :
            M[tc[1]].ctag \/ \E t \in M[tc[1]].tests : t.name = tc[2] /\ t.mtag
UntaggedRunsAll ==
    (WellFormed /\ ~tagged /\ ~check /\ names = {}) =>
        SpecExecuted(M, names, tagged, check) = UNION {TestsOf(M, c) : c \in DOMAIN M}
ListingRunsNone == check => SpecExecuted(M, names, tagged, check) = {}

ClsRow(c) == [cls |-> c, ctag |-> M[c].ctag, tests |-> M[c].tests]
EmitCase == (EmitRows /\ WellFormed) =>
    PrintT(ToJson([module |-> {ClsRow(c) : c \in DOMAIN M}, names |-> names, tagged |-> tagged,
                   check |-> check,
                   executed |-> SpecExecuted(M, names, tagged, check),
                   listed |-> SpecListed(M, names, check)]))
=============================================================================
