---------------------------- MODULE Trace_RexResult ----------------------------
(* Judges recorded results of rexpy runs (C13) and recorded pairs of runs that   *)
(* must agree (C14).  The sets are example ids; text-level facts (compiles,      *)
(* anchored, distinct texts, generator state) are measured by the harness.       *)
EXTENDS Naturals, Sequences, FiniteSets, TLC, Json, IOUtils, TLCExt

Tr == ndJsonDeserialize(IOEnv.TRACE_FILE)
VARIABLE l
Init == l = 1
Next == l <= Len(Tr) /\ l' = l + 1
ToSet(s) == {s[i] : i \in 1..Len(s)}

\* C13: rows[i] = the kept examples matched by the i-th returned expression
ResultBad(e) ==
    (IF e.raised = "none" THEN {} ELSE {"NoError"})
    \cup (IF \A i \in 1..Len(e.rows) : e.rows[i] # <<>> THEN {} ELSE {"EachMatchesSomeExample"})
    \cup (IF e.distincttexts THEN {} ELSE {"NoExpressionTwice"})
    \cup (IF Len(e.rows) <= e.nkept THEN {} ELSE {"AtMostDistinctExamples"})
    \cup (IF e.nkept = 0 => Len(e.rows) = 0 THEN {} ELSE {"EmptyInEmptyOut"})
    \cup (IF e.compiles THEN {} ELSE {"ValidExpression"})
    \cup (IF e.anchored THEN {} ELSE {"Anchored"})
    \cup (IF e.hastag => (Len(e.tagrows) = Len(e.rows) /\ \A i \in 1..Len(e.rows) : ToSet(e.tagrows[i]) = ToSet(e.rows[i]))
          THEN {} ELSE {"TagNeutral"})

\* C14: two runs that must give the same list of expressions
PairBad(e) ==
    (IF e.raised = "none" THEN {} ELSE {"NoError"})
    \cup (IF e.same THEN {} ELSE {"Same_" \o e.kind})
    \cup (IF e.seeded => e.prngsame THEN {} ELSE {"PrngRestored"})

Bad(e) == IF e.ev = "Result" THEN ResultBad(e) ELSE IF e.ev = "Pair" THEN PairBad(e) ELSE {"UnknownEvent"}
Judge == l <= Len(Tr) => LET b == Bad(Tr[l]) IN b = {} \/ PrintT(ToJson([line |-> l, tid |-> Tr[l].tid, bad |-> b]))
AllConsumed == PrintT(ToJson([consumed |-> TLCGet("stats").diameter - 1, lines |-> Len(Tr)]))
=============================================================================
