INIT Init
NEXT Next
INVARIANT ListedSubset
INVARIANT FailuresIffListed
INVARIANT TotalsAreSums
INVARIANT NullNeutralReflexive
