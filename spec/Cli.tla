---------------------------------- MODULE Cli ----------------------------------
(***************************************************************************)
(* The tdda command line for flat files (C17): tdda discover / verify /      *)
(* detect INPUT [CONSTRAINTS] [OUTPUT] with the documented flags.            *)
(* An invocation is [cmd, flags (set of flag names), input, cons, out]:      *)
(*   input  "csv" | "parquet" | "stdin" | "missing"                          *)
(*   cons   "given" | "default" (derived from the input's stem) | "missing"  *)
(*          | "none" (not named and no default file)                          *)
(*   out    "csv" | "parquet" | "stdout" | "none"   (detect only)            *)
(* SpecKw: the keyword arguments the documented flags stand for.             *)
(* ImplKw: transcription of flags.py.                                        *)
(***************************************************************************)
EXTENDS Naturals, FiniteSets, TLC

DiscoverFlags == {"rex", "norex", "ascii"}
VerifyFlags   == {"all", "fields", "ascii", "strict", "sloppy", "epsilon"}
DetectFlags   == VerifyFlags \cup {"write-all", "per-constraint", "no-per-constraint", "no-output-fields",
                                   "output-fields", "interleave", "index", "int"}
FlagsOf(cmd) == CASE cmd = "discover" -> DiscoverFlags [] cmd = "verify" -> VerifyFlags [] cmd = "detect" -> DetectFlags

\* pairs of flags that contradict each other
\* (-t strict -t sloppy is one option given twice, not a contradictory pair: the last one wins)
Contradictory(F) == \/ {"rex", "norex"} \subseteq F \/ {"all", "fields"} \subseteq F
                    \/ {"per-constraint", "no-per-constraint"} \subseteq F
                    \/ {"output-fields", "no-output-fields"} \subseteq F
\* the ones the pinned tree refuses (the others are silently resolved)
ImplRefuses(F) == \/ {"per-constraint", "no-per-constraint"} \subseteq F
                  \/ {"output-fields", "no-output-fields"} \subseteq F

\* flags are passed in alphabetical order by the harness, so of -t sloppy -t strict the latter wins
TypeChecking(F) == IF "strict" \in F THEN "strict" ELSE IF "sloppy" \in F THEN "sloppy" ELSE "default"
SpecKw(cmd, F) ==
    CASE cmd = "discover" -> [inc_rex |-> "rex" \in F]
      [] cmd = "verify"   -> [report |-> IF "fields" \in F /\ "all" \notin F THEN "fields" ELSE "all",
                              type_checking |-> TypeChecking(F), epsilon |-> "epsilon" \in F]
      [] cmd = "detect"   -> [type_checking |-> TypeChecking(F), epsilon |-> "epsilon" \in F,
                              write_all |-> "write-all" \in F, per_constraint |-> "no-per-constraint" \notin F,
                              output_fields |-> IF "output-fields" \in F THEN "given"
                                                ELSE IF "no-output-fields" \in F THEN "none" ELSE "all",
                              interleave |-> "interleave" \in F, index |-> "index" \in F, boolean_ints |-> "int" \in F]
ImplKw(cmd, F) == SpecKw(cmd, F)          \* flags.py maps each flag to its keyword one to one

\* ---- outcome ----
InputOK(i) == i \in {"csv", "parquet", "stdin"}
ConsOK(cmd, i, c) == cmd = "discover" \/ c = "given" \/ (c = "default" /\ i # "stdin")
SpecExit(cmd, F, i, c) == IF InputOK(i) /\ ConsOK(cmd, i, c) /\ ~Contradictory(F) THEN "zero" ELSE "nonzero"
ImplExit(cmd, F, i, c) == IF InputOK(i) /\ ConsOK(cmd, i, c) /\ ~ImplRefuses(F) THEN "zero" ELSE "nonzero"
\* an erroring invocation leaves no output file behind
SpecOutputAllowed(cmd, F, i, c) == SpecExit(cmd, F, i, c) = "zero"
=============================================================================
