INIT TraceInit
NEXT TraceNext
INVARIANT Conforms
INVARIANT OutfileIffFailure
POSTCONDITION Consumed
CHECK_DEADLOCK FALSE
