------------------------------- MODULE MC_LoadDf -------------------------------
EXTENDS LoadDf, Json
CONSTANTS EmitRows
VARIABLE c
Init == c \in Cases
Next == UNCHANGED c
ImplIsSpecInv == ImplIsSpec(c)
ExplicitWinsInv == ExplicitWins(c)
FoundIsFirst == LET i == FoundIndex(c.siblings) IN
                  (i = 0 <=> c.siblings = {}) /\ (i # 0 => i \in c.siblings /\ \A j \in c.siblings : i <= j)
EmitCase == (EmitRows /\ WellFormed(c)) =>
    PrintT(ToJson([ext |-> c.ext, given |-> c.given, siblings |-> c.siblings, mdpath |-> c.mdpath, ignore |-> c.ignore,
                   found |-> FoundIndex(c.siblings), spec |-> SpecSource(c), impl |-> ImplSource(c), dem |-> Demanded(c)]))
=============================================================================
