--------------------------------- MODULE Csvw ---------------------------------
(***************************************************************************)
(* CSVW date / date-time format translation (C16).  A format is a sequence  *)
(* of characters.  ImplTranslate is the ordered chain of str.replace calls  *)
(* of csvw_date_format_to_md_date_format (Python semantics: leftmost,       *)
(* non-overlapping, on the CURRENT string, so earlier outputs can be hit by *)
(* later steps).  SpecTranslate maps the documented fields one by one.      *)
(***************************************************************************)
EXTENDS Naturals, Sequences, FiniteSets, TLC

CONSTANTS Defects
DefectNames == {"HeaderFalseIgnored", "NamesOnlyWithTitles"}

\* ---- Python str.replace on sequences of characters ----
StartsAt(s, i, pat) == i + Len(pat) - 1 <= Len(s) /\ \A k \in 1..Len(pat) : s[i + k - 1] = pat[k]
RECURSIVE ReplaceFrom(_, _, _, _)
ReplaceFrom(s, i, pat, rep) ==
    IF i > Len(s) THEN <<>>
    ELSE IF StartsAt(s, i, pat) THEN rep \o ReplaceFrom(s, i + Len(pat), pat, rep)
    ELSE <<s[i]>> \o ReplaceFrom(s, i + 1, pat, rep)
Replace(s, pat, rep) == ReplaceFrom(s, 1, pat, rep)

P(c) == <<"%", c>>
ImplTranslate(f) ==
    LET s1  == Replace(f,   <<"d", "d">>, <<"d">>)
        s2  == Replace(s1,  <<"d">>, P("d"))
        s3  == Replace(s2,  <<"M", "M">>, <<"M">>)
        s4  == Replace(s3,  <<"M">>, P("m"))
        s5  == Replace(s4,  <<"y", "y", "y", "y">>, P("Y"))
        s6  == Replace(s5,  <<"y", "y">>, P("y"))
        s7  == Replace(s6,  <<"H", "H">>, P("H"))
        s8  == Replace(s7,  <<"m", "m">>, P("M"))
        s9  == Replace(s8,  <<"S", "S", "S">>, <<"S">>)
        s10 == Replace(s9,  <<"S", "S">>, <<"S">>)
        s11 == Replace(s10, <<"S">>, P("f"))
        s12 == Replace(s11, <<"s", "s">>, P("S"))
    IN s12

\* ---- the documented fields ----
\* a structured format: sequence of items, each a field name or a separator character
FieldText(x) == CASE x = "d" -> <<"d">> [] x = "dd" -> <<"d", "d">> [] x = "M" -> <<"M">> [] x = "MM" -> <<"M", "M">>
                  [] x = "yy" -> <<"y", "y">> [] x = "yyyy" -> <<"y", "y", "y", "y">> [] x = "HH" -> <<"H", "H">>
                  [] x = "mm" -> <<"m", "m">> [] x = "ss" -> <<"s", "s">> [] x = "S" -> <<"S">>
                  [] x = "SS" -> <<"S", "S">> [] x = "SSS" -> <<"S", "S", "S">> [] OTHER -> <<x>>
FieldSpec(x) == CASE x \in {"d", "dd"} -> P("d") [] x \in {"M", "MM"} -> P("m") [] x = "yy" -> P("y") [] x = "yyyy" -> P("Y")
                  [] x = "HH" -> P("H") [] x = "mm" -> P("M") [] x = "ss" -> P("S") [] x \in {"S", "SS", "SSS"} -> P("f")
                  [] OTHER -> <<x>>
RECURSIVE Text(_)
Text(items) == IF items = <<>> THEN <<>> ELSE FieldText(Head(items)) \o Text(Tail(items))
RECURSIVE SpecTranslate(_)
SpecTranslate(items) == IF items = <<>> THEN <<>> ELSE FieldSpec(Head(items)) \o SpecTranslate(Tail(items))

\* RE_ISO8601 = ^%Y-%m-%d([T ]%H:%M:%S(\.%f)?)?$
IsoDate == P("Y") \o <<"-">> \o P("m") \o <<"-">> \o P("d")
IsoTime == P("H") \o <<":">> \o P("M") \o <<":">> \o P("S")
IsIso(s) == \/ s = IsoDate
            \/ \E j \in {"T", " "} : s = IsoDate \o <<j>> \o IsoTime
            \/ \E j \in {"T", " "} : s = IsoDate \o <<j>> \o IsoTime \o <<".">> \o P("f")
Final(s) == IF IsIso(s) THEN <<"ISO8601">> ELSE s

----------------------------------------------------------------------------
(* Dialect / header handling: from the CSVW description to pandas.read_csv   *)
(* keyword arguments (process_dialect, to_pandas_read_csv_args).  md is      *)
(*   [header : "absent" | "true" | "false", hrc : "absent" | "0" | "1",      *)
(*    titles : BOOLEAN  (some column carries titles),                        *)
(*    delim : "absent" | a delimiter, enc : "absent" | an encoding]          *)
(* A keyword that is not passed is "absent".                                 *)

\* process_dialect: header_rows.  The pinned tree reads 'headerRowCount' where it means 'header'.
HeaderRows(md) ==
    IF "HeaderFalseIgnored" \in Defects
    THEN (IF md.hrc = "0" THEN 0 ELSE 1)
    ELSE (IF md.header = "false" \/ md.hrc = "0" THEN 0 ELSE 1)

ImplKw(md) ==
    LET headerless == HeaderRows(md) = 0
        names == IF md.titles THEN "declared"
                 ELSE IF headerless /\ "NamesOnlyWithTitles" \notin Defects THEN "declared" ELSE "absent"
        header == IF headerless THEN "None" ELSE IF md.titles THEN "0" ELSE "absent" IN
    [names |-> names, header |-> header, sep |-> md.delim, encoding |-> md.enc]

\* the documented meaning: a file without a header row gets the declared column names and header=None;
\* a file with a header row either keeps its own names (which must be the declared ones) or, when
\* titles are given, has them replaced by the declared names
SpecHeaderless(md) == md.header = "false" \/ md.hrc = "0"
SpecKw(md) ==
    [names |-> IF SpecHeaderless(md) \/ md.titles THEN "declared" ELSE "absent",
     header |-> IF SpecHeaderless(md) THEN "None" ELSE IF md.titles THEN "0" ELSE "absent",
     sep |-> md.delim, encoding |-> md.enc]
\* contradictory descriptions (header false with a positive row count) are not well formed
WellFormedMd(md) == ~(md.header = "false" /\ md.hrc = "1") /\ ~(md.header = "true" /\ md.hrc = "0")
=============================================================================
