------------------------------- MODULE MC_RefLoc -------------------------------
EXTENDS RefLoc
MCInit == LInit /\ refs = [f \in Files |-> Absent]
Bound == TLCGet("level") <= 7
=============================================================================
