------------------------------ MODULE RefTest ------------------------------
(***************************************************************************)
(* Reference-test sessions (C10; frame part of C15).                        *)
(*                                                                         *)
(* State that outlives a call:                                              *)
(*   regen  the class-level regeneration table shared by every              *)
(*          ReferenceTest (kind -> unset / T / F; the key NoKind is the     *)
(*          table's None entry = "all kinds")                               *)
(*   refs   the reference files (path -> content id or Absent)              *)
(* A content id stands for an equivalence class of actual results under     *)
(* "the assertion type cannot tell them apart" (same lines for text, same   *)
(* bytes for binary, equal frames for DataFrames); the harness computes it. *)
(* The model does not care which type a file is used with; drivers keep     *)
(* type-specific files.                                                    *)
(***************************************************************************)
EXTENDS Naturals, Sequences, FiniteSets, TLC

CONSTANTS Kinds,       \* kind labels used by assertions and by set_regeneration
          Paths,       \* reference files
          Contents,    \* content ids
          Types,       \* assertion types
          Arity        \* [Types -> 1..2]: how many reference files one assertion of the type names
NoKind == "NoKind"
Absent == "Absent"
Unset  == "unset"

VARIABLES regen, refs, last
vars == <<regen, refs, last>>

KindKeys == Kinds \cup {NoKind}

TypeOK == /\ regen \in [KindKeys -> {Unset, "T", "F"}]
          /\ refs \in [Paths -> Contents \cup {Absent}]

\* _should_regenerate: the kind's own entry if it has one, otherwise the None entry
ShouldRegen(rg, k) == IF rg[k] # Unset THEN rg[k] = "T" ELSE rg[NoKind] = "T"

None == [act |-> "none", wrote |-> {}]
Init == /\ regen = [k \in KindKeys |-> Unset]
        /\ refs \in [Paths -> Contents \cup {Absent}]
        /\ last = None

\* set_regeneration(kind=None, regenerate=True)
SetRegeneration(k, flag) ==
    /\ regen' = [regen EXCEPT ![k] = IF flag THEN "T" ELSE "F"]
    /\ UNCHANGED refs
    /\ last' = [act |-> "SetRegeneration", kind |-> k, flag |-> flag, wrote |-> {}]

\* One assertion on the reference files ps (one file, or two for a list of text files) with actual
\* contents as (same length).  k = NoKind models an assertion that gives no kind.
Outcome(ps, as, rf) ==
    IF \E i \in 1..Len(ps) : rf[ps[i]] = Absent THEN "noref"
    ELSE IF \A i \in 1..Len(ps) : rf[ps[i]] = as[i] THEN "pass" ELSE "fail"

AssertRef(ty, k, ps, as) ==
    /\ Len(ps) = Arity[ty]
    /\ IF ShouldRegen(regen, k)
       THEN /\ refs' = [p \in Paths |-> IF \E i \in 1..Len(ps) : ps[i] = p
                                        THEN as[CHOOSE i \in 1..Len(ps) : ps[i] = p]
                                        ELSE refs[p]]
            /\ last' = [act |-> "Assert", type |-> ty, kind |-> k, paths |-> ps, actual |-> as,
                        outcome |-> "regenerated", wrote |-> {ps[i] : i \in 1..Len(ps)}]
       ELSE /\ UNCHANGED refs
            /\ last' = [act |-> "Assert", type |-> ty, kind |-> k, paths |-> ps, actual |-> as,
                        outcome |-> Outcome(ps, as, refs), wrote |-> {}]
    /\ UNCHANGED regen

\* (pairs of different files; written as a union of one-variable sets, which the TLAPS back ends can reason about)
PathSeqs(ty) == IF Arity[ty] = 2
                THEN UNION {{<<p, q>> : q \in Paths \ {p}} : p \in Paths}
                ELSE {<<p>> : p \in Paths}

Next == \/ \E k \in KindKeys, f \in BOOLEAN : SetRegeneration(k, f)
        \/ \E ty \in Types, k \in KindKeys : \E ps \in PathSeqs(ty) :
              \E as \in [1..Len(ps) -> Contents] : AssertRef(ty, k, ps, as)

Spec == Init /\ [][Next]_vars

----------------------------------------------------------------------------
(* C10 *)
\* a file is touched when its content changes or when it is (re)written, even with equal content
Touched(p) == refs'[p] # refs[p] \/ p \in last'.wrote

\* a reference changes only by an assertion on that very file, under a regeneration request that
\* covers the assertion's kind
OnlyOnRequest ==
    [][\A p \in Paths : Touched(p) =>
          /\ last'.act = "Assert"
          /\ \E i \in 1..Len(last'.paths) : last'.paths[i] = p
          /\ ShouldRegen(regen, last'.kind)]_vars

\* an assertion in normal mode never creates, modifies or deletes a reference, whatever its outcome
NormalModeFrame ==
    [][(last'.act = "Assert" /\ ~ShouldRegen(regen, last'.kind)) => (refs' = refs /\ last'.wrote = {})]_vars

\* selecting kinds: exactly the named kinds (or all, through the None entry) are regenerated
ExactlySelected ==
    [][(last'.act = "Assert") =>
          ((last'.outcome = "regenerated") <=> ShouldRegen(regen, last'.kind))]_vars

\* after a regenerating assertion the reference holds the actual, so the same assertion passes
RegenWritesActual ==
    (last.act = "Assert" /\ last.outcome = "regenerated") =>
        \A i \in 1..Len(last.paths) :
            \* (when a list names the same file twice the later write wins; PathSeqs excludes it)
            refs[last.paths[i]] = last.actual[i]
RegenThenPass ==
    (last.act = "Assert" /\ last.outcome = "regenerated") =>
        Outcome(last.paths, last.actual, refs) = "pass"

SetRegenerationFrame == [][last'.act = "SetRegeneration" => refs' = refs]_vars
=============================================================================
