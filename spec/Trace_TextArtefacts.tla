-------------------------- MODULE Trace_TextArtefacts --------------------------
(* One line per real assertion (string / text file / binary file) run with a  *)
(* fresh temporary directory and a canary directory; the line carries what     *)
(* was observed afterwards.  C15's clauses are required of every line.         *)
EXTENDS Naturals, Sequences, FiniteSets, TLC, Json, IOUtils, TLCExt

Tr == ndJsonDeserialize(IOEnv.TRACE_FILE)
VARIABLE l
Init == l = 1
Next == l <= Len(Tr) /\ l' = l + 1

Bad(e) ==
    (IF e.raised = "none" THEN {} ELSE {"NoError"})
    \cup (IF e.raised # "none" \/ (e.outcome = "pass") = e.expectpass THEN {} ELSE {"OutcomeIsSpec"})
    \cup (IF e.outside = 0 THEN {} ELSE {"NothingOutsideTmp"})
    \cup (IF e.outcome = "pass" /\ e.tmpfiles # 0 THEN {"PassWritesNothing"} ELSE {})
    \cup (IF e.outcome = "fail" /\ ~e.has_cmd THEN {"FailureNamesACommand"} ELSE {})
    \cup (IF e.outcome = "fail" /\ ~e.cmdfiles_exist THEN {"NamedFilesExist"} ELSE {})
    \cup (IF e.outcome = "fail" /\ ~e.has_actual_cmd THEN {"ActualFileNamed"} ELSE {})
    \cup (IF e.ev = "Text" /\ e.outcome = "fail" /\ ~e.actual_faithful THEN {"RawActualFaithful"} ELSE {})
    \cup (IF e.ev = "Text" /\ e.outcome = "fail" /\ e.post_expected /\ e.exclusions /\ ~e.has_post
          THEN {"PostProcessedPairWritten"} ELSE {})
    \cup (IF e.ev = "Text" /\ e.outcome = "fail" /\ ~e.diffs_match THEN {"PostProcessedDifferExactlyOnUnexcused"} ELSE {})
    \cup (IF e.ev = "Binary" /\ e.outcome = "fail" /\
             (e.offset # e.want_offset \/ e.alen # e.want_alen \/ e.elen # e.want_elen)
          THEN {"BinaryOffsetExact"} ELSE {})
Judge == l <= Len(Tr) => LET b == Bad(Tr[l]) IN
            b = {} \/ PrintT(ToJson([line |-> l, tid |-> Tr[l].tid, bad |-> b]))
AllConsumed == PrintT(ToJson([consumed |-> TLCGet("stats").diameter - 1, lines |-> Len(Tr)]))
=============================================================================
