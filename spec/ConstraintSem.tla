--------------------------- MODULE ConstraintSem ---------------------------
(***************************************************************************)
(* Meaning of tdda field constraints (C01 C02 C06 C07; used by C08 C09).    *)
(*                                                                         *)
(* Abstract data.  A column is [t |-> type, v |-> sequence of cells]; a     *)
(* cell is an integer or Null.  The integer stands for                      *)
(*    real / int  : value * 8  (so 1/8 is the grid; int cells are 8*k)      *)
(*    bool        : 0 / 1                                                   *)
(*    date        : a day number                                            *)
(*    string      : a string id; StrLen[id] is its length in characters,    *)
(*                  ids are numbered in sort order, RexMatch[r] is the set  *)
(*                  of string ids the model regular expression r matches.   *)
(* A missing field is [t |-> "missing", v |-> <<>>].                        *)
(*                                                                         *)
(* A constraint is [k, isnull, val, tset, iset, sgn, vt, prec, eps, tc]:    *)
(*    k kind; isnull: the constraint value is JSON null; val an integer     *)
(*    value in the column's unit; tset the allowed types; iset the allowed  *)
(*    values / the expressions (ids); sgn a sign name; vt the type of a     *)
(*    min/max bound; prec "fuzzy"/"closed"/"open"; eps = <<num, den>>; tc   *)
(*    "strict"/"sloppy".  (Separate fields keep TLC values homogeneous.)    *)
(*                                                                         *)
(* Spec*  : the documented meaning (tdda_json_file_format.md, verify_df and *)
(*          discover_df docstrings, the property statements).               *)
(* Impl*  : transcription of baseconstraints.py / pd/constraints.py.        *)
(* Demanded(con, col): the corner is fixed by the documentation; elsewhere  *)
(*          Impl is compared with the code for drift only (Appendix A).     *)
(***************************************************************************)
EXTENDS Integers, Sequences, FiniteSets, TLC

CONSTANTS StrLen,      \* sequence: StrLen[id] = length of string id
          RexMatch,    \* sequence: RexMatch[r] = set of string ids matched by model regex r
          Defects      \* subset of DefectNames
DefectNames == {"SignNullFlagsNulls"}

Null == -9999
Missing == [t |-> "missing", v |-> <<>>]

----------------------------------------------------------------------------
(* helpers *)
SeqSet(s) == {s[i] : i \in 1..Len(s)}
SMin(S) == CHOOSE x \in S : \A y \in S : x <= y
SMax(S) == CHOOSE x \in S : \A y \in S : x >= y
AbsV(x) == IF x < 0 THEN -x ELSE x

NN(col)        == {i \in 1..Len(col.v) : col.v[i] # Null}          \* indices of non-null cells
NNVals(col)    == {col.v[i] : i \in NN(col)}
NullCount(col) == Len(col.v) - Cardinality(NN(col))
NUnique(col)   == Cardinality(NNVals(col))
Numeric(t)     == t \in {"int", "real", "bool"}
Coarse(t)      == IF Numeric(t) THEN "number" ELSE t
Whole(x)       == x % 8 = 0
Dup(col, i)    == \E j \in NN(col) : j # i /\ col.v[j] = col.v[i]

----------------------------------------------------------------------------
(* SPECIFICATION: constraint satisfaction *)

\* v meets a minimum b: closed / open / within eps*|b| below it
GeMin(v, b, prec, eps) ==
    CASE prec = "closed" -> v >= b
      [] prec = "open"   -> v > b
      [] OTHER           -> v * eps[2] >= b * eps[2] - eps[1] * AbsV(b)
LeMax(v, b, prec, eps) ==
    CASE prec = "closed" -> v <= b
      [] prec = "open"   -> v < b
      [] OTHER           -> v * eps[2] <= b * eps[2] + eps[1] * AbsV(b)
\* date bounds are compared closed whatever the precision
EffPrec(con, col) == IF col.t = "date" THEN "closed" ELSE con.prec

SignOK(v, s) == CASE s = "positive" -> v > 0 [] s = "non-negative" -> v >= 0 [] s = "zero" -> v = 0
                  [] s = "non-positive" -> v <= 0 [] s = "negative" -> v < 0 [] OTHER -> FALSE   \* "null"

\* the per-value predicate of the kinds that have one
ValueOK(con, col, v) ==
    CASE con.k = "min"            -> GeMin(v, con.val, EffPrec(con, col), con.eps)
      [] con.k = "max"            -> LeMax(v, con.val, EffPrec(con, col), con.eps)
      [] con.k = "sign"           -> SignOK(v, con.sgn)
      [] con.k = "min_length"     -> StrLen[v] >= con.val
      [] con.k = "max_length"     -> StrLen[v] <= con.val
      [] con.k = "allowed_values" -> v \in con.iset
      [] con.k = "rex"            -> \E r \in con.iset : v \in RexMatch[r]
      [] OTHER -> TRUE

PerValueKinds == {"min", "max", "sign", "min_length", "max_length", "allowed_values", "rex"}

TypeOK(con, col) ==
    \/ col.t \in con.tset
    \/ /\ con.tc = "sloppy"
       /\ \/ (col.t = "real" /\ "int" \in con.tset /\ \A v \in NNVals(col) : Whole(v))
          \/ (col.t = "string" /\ "bool" \in con.tset /\ NNVals(col) = {})

\* a kind applied to a column whose type it is not meant for fails (documented for lengths and rex:
\* "string fields only"; a bound of an incomparable type fails)
Applicable(con, col) ==
    CASE con.k \in {"min", "max"} -> Coarse(con.vt) = Coarse(col.t)
      [] con.k = "sign" -> Numeric(col.t)
      [] con.k \in {"min_length", "max_length", "rex", "allowed_values"} -> col.t = "string"
      [] OTHER -> TRUE

SpecSat(con, col) ==
    IF col.t = "missing" THEN FALSE
    ELSE IF con.isnull THEN TRUE
    ELSE CASE con.k = "type"          -> TypeOK(con, col)
           [] con.k = "max_nulls"     -> NullCount(col) <= con.val
           [] con.k = "no_duplicates" -> NUnique(col) = Cardinality(NN(col))
           [] con.k \in PerValueKinds ->
                IF con.k \in {"min_length", "max_length", "rex"} /\ col.t # "string" THEN FALSE
                ELSE IF NNVals(col) = {} THEN TRUE            \* no values: nothing can violate it
                ELSE IF ~Applicable(con, col) THEN FALSE
                ELSE \A v \in NNVals(col) : ValueOK(con, col, v)
           [] OTHER -> TRUE

\* corners the documentation fixes (everything else is compared with the transcription only)
Demanded(con, col) ==
    /\ (col.t # "missing" /\ ~con.isnull) =>
        CASE con.k \in {"min", "max"} -> /\ col.t \in {"int", "real", "bool", "date"}
                                         /\ (col.t = "date" => con.prec # "open")
                                         /\ Coarse(con.vt) = Coarse(col.t)   \* an ill-typed bound is Impl-only
          [] con.k = "sign" -> Numeric(col.t)
          [] con.k \in {"min_length", "max_length", "rex", "allowed_values"} -> col.t = "string"
          [] con.k = "type" -> ~(con.tc = "sloppy" /\ col.t = "real" /\ "bool" \in con.tset
                                 /\ ~("int" \in con.tset) /\ ~("real" \in con.tset))
          [] OTHER -> TRUE

----------------------------------------------------------------------------
(* TRANSCRIPTION of the verifiers (baseconstraints.py verify_*_constraint) *)

FuzzDown(b, eps) == IF b >= 0 THEN <<b * (eps[2] - eps[1]), eps[2]>> ELSE <<b * (eps[2] + eps[1]), eps[2]>>
FuzzUp(b, eps)   == IF b >= 0 THEN <<b * (eps[2] + eps[1]), eps[2]>> ELSE <<b * (eps[2] - eps[1]), eps[2]>>
FuzzyGe(a, b, eps) == a >= b \/ a * FuzzDown(b, eps)[2] >= FuzzDown(b, eps)[1]
FuzzyLe(a, b, eps) == a <= b \/ a * FuzzUp(b, eps)[2] <= FuzzUp(b, eps)[1]

ImplMinMax(con, col) ==
    IF NNVals(col) = {} THEN TRUE
    ELSE LET m == IF con.k = "min" THEN SMin(NNVals(col)) ELSE SMax(NNVals(col)) IN
         IF Coarse(con.vt) # Coarse(col.t) THEN FALSE
         ELSE IF con.prec = "closed" \/ con.vt = "date"
              THEN (IF con.k = "min" THEN m >= con.val ELSE m <= con.val)
         ELSE IF con.prec = "open"
              THEN (IF con.k = "min" THEN m > con.val ELSE m < con.val)
         ELSE (IF con.k = "min" THEN FuzzyGe(m, con.val, con.eps) ELSE FuzzyLe(m, con.val, con.eps))

ImplLength(con, col) ==
    IF col.t # "string" THEN FALSE
    ELSE IF NNVals(col) = {} THEN TRUE
    ELSE IF con.k = "min_length" THEN SMin({StrLen[v] : v \in NNVals(col)}) >= con.val
         ELSE SMax({StrLen[v] : v \in NNVals(col)}) <= con.val

ImplType(con, col) ==
    IF con.tc = "strict" THEN col.t \in con.tset
    ELSE IF col.t \in con.tset THEN TRUE
    ELSE IF "int" \in con.tset /\ col.t = "real" THEN \A v \in NNVals(col) : Whole(v)
    ELSE IF "bool" \in con.tset /\ col.t = "real" THEN \A v \in NNVals(col) : Whole(v)
    ELSE IF "bool" \in con.tset /\ col.t = "string"
         THEN NNVals(col) = {}
    ELSE FALSE

ImplSign(con, col) ==
    IF NNVals(col) = {} THEN TRUE
    ELSE IF ~Numeric(col.t) THEN FALSE
    ELSE LET m == SMin(NNVals(col))
             M == SMax(NNVals(col)) IN
         CASE con.sgn = "null" -> FALSE
           [] con.sgn = "positive" -> m > 0
           [] con.sgn = "non-negative" -> m >= 0
           [] con.sgn = "zero" -> m = 0 /\ M = 0
           [] con.sgn = "non-positive" -> M <= 0
           [] con.sgn = "negative" -> M < 0

ImplSat(con, col) ==
    IF col.t = "missing" THEN FALSE
    ELSE IF con.isnull THEN TRUE
    ELSE CASE con.k \in {"min", "max"} -> ImplMinMax(con, col)
           [] con.k \in {"min_length", "max_length"} -> ImplLength(con, col)
           [] con.k = "type" -> ImplType(con, col)
           [] con.k = "sign" -> ImplSign(con, col)
           [] con.k = "max_nulls" -> NullCount(col) <= con.val
           [] con.k = "no_duplicates" -> NUnique(col) = Cardinality(NN(col))
           [] con.k = "allowed_values" -> IF col.t = "string" THEN NNVals(col) \subseteq con.iset ELSE NNVals(col) = {}
           [] con.k = "rex" -> IF col.t # "string" THEN FALSE
                               ELSE \A v \in NNVals(col) : \E r \in con.iset : v \in RexMatch[r]
           [] OTHER -> TRUE

----------------------------------------------------------------------------
(* DETECTION (C06): per-record flags of a FAILED constraint: "T", "F" or "N" (no flag: null cell) *)

SpecFlag(con, col, i) ==
    LET v == col.v[i] IN
    CASE con.k = "type"          -> "F"
      [] con.k = "max_nulls"     -> IF v = Null THEN "F" ELSE "T"
      [] con.k = "no_duplicates" -> IF v = Null THEN "T" ELSE IF Dup(col, i) THEN "F" ELSE "T"
      [] OTHER -> IF v = Null THEN "N" ELSE IF ValueOK(con, col, v) THEN "T" ELSE "F"
SpecFlags(con, col) == [i \in 1..Len(col.v) |-> SpecFlag(con, col, i)]

\* detection is demanded where verification is, for applicable constraints (an inapplicable one marks
\* every record false, nulls included, which the statement's null clause does not cover)
FlagsDemanded(con, col) == Demanded(con, col) /\ Applicable(con, col) /\ col.t # "missing"

\* transcription of PandasConstraintDetector.detect_*: detection_field leaves nulls unflagged
ImplFlag(con, col, i) ==
    LET v == col.v[i]
        df(b) == IF v = Null THEN "N" ELSE IF b THEN "T" ELSE "F" IN
    CASE con.k = "type" -> "F"
      [] con.k = "max_nulls" -> IF v = Null THEN "F" ELSE "T"
      [] con.k = "no_duplicates" -> IF v = Null THEN "T" ELSE IF Dup(col, i) THEN "F" ELSE "T"
      [] con.k \in {"min", "max"} ->
            IF Coarse(con.vt) # Coarse(col.t) THEN "F"
            ELSE IF v = Null THEN "N"
            ELSE IF con.prec = "closed" \/ col.t = "date"
                 THEN df(IF con.k = "min" THEN v >= con.val ELSE v <= con.val)
            ELSE IF con.prec = "open"
                 THEN df(IF con.k = "min" THEN v > con.val ELSE v < con.val)
            ELSE df(IF con.k = "min" THEN FuzzyGe(v, con.val, con.eps) ELSE FuzzyLe(v, con.val, con.eps))
      [] con.k \in {"min_length", "max_length"} ->
            IF col.t # "string" THEN "F"
            ELSE IF v = Null THEN "N"
            ELSE df(IF con.k = "min_length" THEN StrLen[v] >= con.val ELSE StrLen[v] <= con.val)
      [] con.k = "sign" ->
            IF con.sgn = "null" THEN (IF "SignNullFlagsNulls" \in Defects \/ v # Null THEN "F" ELSE "N")
            ELSE IF v = Null THEN "N" ELSE df(SignOK(v, con.sgn))
      [] con.k = "allowed_values" -> IF v = Null THEN "N" ELSE df(v \in con.iset)
      [] con.k = "rex" -> IF col.t # "string" THEN "F"
                          ELSE IF v = Null THEN "N" ELSE df(\E r \in con.iset : v \in RexMatch[r])
      [] OTHER -> "N"
ImplFlags(con, col) == [i \in 1..Len(col.v) |-> ImplFlag(con, col, i)]

\* consistency of the two levels: a constraint fails iff some record is flagged false -- except for
\* the aggregate kinds, where it is by definition
FlagsExplainVerdict(con, col) ==
    (FlagsDemanded(con, col) /\ ~con.isnull /\ ~SpecSat(con, col) /\ Len(col.v) > 0) =>
        \E i \in 1..Len(col.v) : SpecFlag(con, col, i) = "F"

----------------------------------------------------------------------------
(* DISCOVERY (C07): the statistics discovery must report, as a record; Absent = not emitted *)
Absent == -8888
MaxCategories == 20

SignClass(S) == IF \A v \in S : v = 0 THEN "zero"
                ELSE IF \A v \in S : v > 0 THEN "positive"
                ELSE IF \A v \in S : v >= 0 THEN "non-negative"
                ELSE IF \A v \in S : v < 0 THEN "negative"
                ELSE IF \A v \in S : v <= 0 THEN "non-positive"
                ELSE "none"

SpecDiscover(col) ==
    LET S == NNVals(col)
        n == Len(col.v) IN
    [type          |-> col.t,
     min           |-> IF col.t # "string" /\ S # {} THEN SMin(S) ELSE Absent,
     max           |-> IF col.t # "string" /\ S # {} THEN SMax(S) ELSE Absent,
     min_length    |-> IF col.t = "string" /\ S # {} THEN SMin({StrLen[v] : v \in S}) ELSE Absent,
     max_length    |-> IF col.t = "string" /\ S # {} THEN SMax({StrLen[v] : v \in S}) ELSE Absent,
     sign          |-> IF Numeric(col.t) /\ S # {} THEN SignClass(S) ELSE "none",
     max_nulls     |-> IF n > 0 /\ NullCount(col) <= 1 THEN NullCount(col) ELSE Absent,
     no_duplicates |-> n > 0 /\ col.t # "real" /\ Cardinality(S) > 1 /\ Cardinality(S) = Cardinality(NN(col)),
     allowed       |-> IF col.t = "string" /\ S # {} /\ Cardinality(S) <= MaxCategories THEN S ELSE {}]

\* transcription of discover_field_constraints
ImplDiscover(col) ==
    LET S == NNVals(col)
        n == Len(col.v)
        nuniq == IF col.t \in {"string", "int"} THEN Cardinality(S) ELSE -1 IN
    [type          |-> col.t,
     min           |-> IF n > 0 /\ col.t # "string" /\ S # {} THEN SMin(S) ELSE Absent,
     max           |-> IF n > 0 /\ col.t # "string" /\ S # {} THEN SMax(S) ELSE Absent,
     min_length    |-> IF n > 0 /\ col.t = "string" /\ S # {} THEN SMin({StrLen[v] : v \in S}) ELSE Absent,
     max_length    |-> IF n > 0 /\ col.t = "string" /\ S # {} THEN SMax({StrLen[v] : v \in S}) ELSE Absent,
     sign          |-> IF n > 0 /\ S # {} /\ col.t \notin {"string", "date"} THEN SignClass(S) ELSE "none",
     max_nulls     |-> IF n > 0 /\ NullCount(col) < 2 THEN NullCount(col) ELSE Absent,
     no_duplicates |-> n > 0 /\ nuniq = Cardinality(NN(col)) /\ nuniq > 1 /\ col.t # "real",
     allowed       |-> IF n > 0 /\ col.t = "string" /\ Cardinality(S) <= MaxCategories THEN S ELSE {}]

\* which discovered statistics the property fixes: the 'null' sign class of an all-null numeric
\* field and no_duplicates on bool / date fields are not (Appendix A)
DiscoverDemandedKeys(col) ==
    {"type", "min", "max", "min_length", "max_length", "max_nulls", "allowed"}
    \cup (IF NNVals(col) # {} THEN {"sign"} ELSE {})
    \cup (IF col.t \in {"string", "int", "real"} THEN {"no_duplicates"} ELSE {})

\* the constraint set a discovery record stands for (as constraints of this module)
DCon(k, val, tset, iset, sgn, vt) ==
    [k |-> k, isnull |-> FALSE, val |-> val, tset |-> tset, iset |-> iset, sgn |-> sgn, vt |-> vt,
     prec |-> "fuzzy", eps |-> <<0, 1>>, tc |-> "sloppy"]
DiscoveredCons(d) ==
    {DCon("type", 0, {d.type}, {}, "none", d.type)}
    \cup (IF d.min # Absent THEN {DCon("min", d.min, {}, {}, "none", d.type)} ELSE {})
    \cup (IF d.max # Absent THEN {DCon("max", d.max, {}, {}, "none", d.type)} ELSE {})
    \cup (IF d.min_length # Absent THEN {DCon("min_length", d.min_length, {}, {}, "none", "int")} ELSE {})
    \cup (IF d.max_length # Absent THEN {DCon("max_length", d.max_length, {}, {}, "none", "int")} ELSE {})
    \cup (IF d.sign # "none" THEN {DCon("sign", 0, {}, {}, d.sign, "string")} ELSE {})
    \cup (IF d.max_nulls # Absent THEN {DCon("max_nulls", d.max_nulls, {}, {}, "none", "int")} ELSE {})
    \cup (IF d.no_duplicates THEN {DCon("no_duplicates", 1, {}, {}, "none", "bool")} ELSE {})
    \cup (IF d.allowed # {} THEN {DCon("allowed_values", 0, {}, d.allowed, "none", "string")} ELSE {})

\* C01 at the operator level: what discovery reports is satisfied by the data it came from,
\* under every epsilon and both type-checking modes
Closure(col) == \A c \in DiscoveredCons(ImplDiscover(col)) : ImplSat(c, col) = TRUE /\ SpecSat(c, col)
\* C07: every discovered bound is attained by some record
Attained(col) ==
    LET d == SpecDiscover(col) IN
    /\ (d.min # Absent => d.min \in NNVals(col)) /\ (d.max # Absent => d.max \in NNVals(col))
    /\ (d.min_length # Absent => \E v \in NNVals(col) : StrLen[v] = d.min_length)
    /\ (d.max_length # Absent => \E v \in NNVals(col) : StrLen[v] = d.max_length)
=============================================================================
