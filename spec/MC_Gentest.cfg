CONSTANTS
  Outs <- MCOuts
  Others <- MCOthers
  Contents <- MCContents
  Defects = {}
INIT MCInit
NEXT GNext
INVARIANT NoClobber
INVARIANT ScriptExists
INVARIANT ScriptPasses
INVARIANT Teeth
CHECK_DEADLOCK FALSE
