CONSTANTS
  MaxP = 3
  MaxE = 3
  FreqVals = {1, 2}
SPECIFICATION CSpec
INVARIANT Post
PROPERTY Terminates
CHECK_DEADLOCK FALSE
