----------------------------- MODULE MC_RefTest -----------------------------
(* Exhaustive instances of RefTest.                                           *)
(*  MC_RefTest.cfg       reachability from the real initial state, all        *)
(*                       properties                                           *)
(*  MC_RefTest_steps.cfg every (state, action) pair once, written out as a    *)
(*                       JSON row (pre-state, action, post-state) for replay  *)
(*                       on the real ReferenceTest                            *)
EXTENDS RefTest, Json

CONSTANTS EmitRows
VARIABLE prev

MCKinds    == {"k1", "k2"}
MCPaths    == {"p1", "p2"}
MCContents == {"x", "y"}
MCTypes    == {"single", "pair"}
MCArity    == [t \in MCTypes |-> IF t = "pair" THEN 2 ELSE 1]

MCInit == Init /\ prev = <<regen, refs>>
MCNext == Next /\ prev' = <<regen, refs>>

\* every (regen, refs) combination is reachable (SetRegeneration is unconstrained and any reference
\* directory may pre-exist), so for the step table all of them are initial and each fires every
\* action once
StepInit == /\ regen \in [KindKeys -> {Unset, "T", "F"}]
            /\ refs \in [Paths -> Contents \cup {Absent}]
            /\ last = None
            /\ prev = <<regen, refs>>
OneStep == TLCGet("level") <= 1

EmitCase == (EmitRows /\ last.act # "none") =>
    PrintT(ToJson([pre_regen |-> prev[1], pre_refs |-> prev[2], action |-> last,
                   post_regen |-> regen, post_refs |-> refs]))
=============================================================================
