-------------------------------- MODULE RefLoc --------------------------------
(***************************************************************************)
(* Where a reference test looks for, and writes, its reference files (C10:  *)
(* "reference data locations: kind -> directory, per class and per          *)
(* instance").                                                             *)
(*                                                                         *)
(*   clsloc   the class-level defaults (set_default_data_location)          *)
(*   loc      every live instance's own table: a COPY of the class-level     *)
(*            defaults taken when the instance is made, then changed only by  *)
(*            that instance's set_data_location                               *)
(*   refs     the reference files: <<directory, name>> -> content / Absent    *)
(* A relative reference name given to an assertion of kind k through         *)
(* instance i means the file  <<Resolve(i, k), name>>:  the instance's entry  *)
(* for k if it has one, otherwise its entry for "no kind".                    *)
(***************************************************************************)
EXTENDS Naturals, FiniteSets, Sequences, TLC

CONSTANTS Insts, Kinds, Dirs, Names, Contents
NoKind == "NoKind"
Unset  == "unset"
Absent == "Absent"
KindKeys == Kinds \cup {NoKind}

VARIABLES clsloc, loc, alive, refs, last
lvars == <<clsloc, loc, alive, refs, last>>

Files == Dirs \X Names
LInit == /\ clsloc = [k \in KindKeys |-> Unset]
         /\ loc = [i \in Insts |-> [k \in KindKeys |-> Unset]]
         /\ alive = {}
         /\ refs \in [Files -> Contents \cup {Absent}]
         /\ last = [act |-> "none", wrote |-> {}]

Resolve(i, k) == IF loc[i][k] # Unset THEN loc[i][k] ELSE loc[i][NoKind]

SetDefault(k, d) == /\ clsloc' = [clsloc EXCEPT ![k] = d]
                    /\ last' = [act |-> "SetDefault", wrote |-> {}]
                    /\ UNCHANGED <<loc, alive, refs>>
NewInstance(i) == /\ i \notin alive
                  /\ alive' = alive \cup {i}
                  /\ loc' = [loc EXCEPT ![i] = clsloc]
                  /\ last' = [act |-> "NewInstance", wrote |-> {}]
                  /\ UNCHANGED <<clsloc, refs>>
\* an instance's own setting: nobody else's table moves, nor do the class-level defaults
SetLocation(i, k, d) == /\ i \in alive
                        /\ loc' = [loc EXCEPT ![i][k] = d]
                        /\ last' = [act |-> "SetLocation", wrote |-> {}]
                        /\ UNCHANGED <<clsloc, alive, refs>>
\* an assertion under regeneration writes its own reference and nothing else
Regenerate(i, k, n, c) ==
    /\ i \in alive /\ Resolve(i, k) # Unset
    /\ refs' = [refs EXCEPT ![<<Resolve(i, k), n>>] = c]
    /\ last' = [act |-> "Regenerate", inst |-> i, kind |-> k, name |-> n, content |-> c,
                wrote |-> {<<Resolve(i, k), n>>}, outcome |-> "regenerated"]
    /\ UNCHANGED <<clsloc, loc, alive>>
\* in normal mode it compares with that same file and touches nothing
Check(i, k, n, c) ==
    /\ i \in alive /\ Resolve(i, k) # Unset
    /\ last' = [act |-> "Check", inst |-> i, kind |-> k, name |-> n, content |-> c, wrote |-> {},
                outcome |-> IF refs[<<Resolve(i, k), n>>] = c THEN "pass" ELSE "fail"]
    /\ UNCHANGED <<clsloc, loc, alive, refs>>

LNext == \/ \E k \in KindKeys, d \in Dirs : SetDefault(k, d)
         \/ \E i \in Insts : NewInstance(i)
         \/ \E i \in Insts, k \in KindKeys, d \in Dirs : SetLocation(i, k, d)
         \/ \E i \in Insts, k \in KindKeys, n \in Names, c \in Contents : Regenerate(i, k, n, c) \/ Check(i, k, n, c)
LSpec == LInit /\ [][LNext]_lvars

----------------------------------------------------------------------------
\* only the file the assertion means is ever touched, and only under regeneration
OnlyOwnReference ==
    [][\A f \in Files : refs'[f] # refs[f] =>
          (last'.act = "Regenerate" /\ f = <<Resolve(last'.inst, last'.kind), last'.name>>)]_lvars
\* what one instance sets is invisible to every other instance, existing or future
InstancesIndependent ==
    [][\A i \in Insts : (last'.act = "SetLocation" /\ loc'[i] # loc[i]) =>
          (clsloc' = clsloc /\ \A j \in Insts \ {i} : loc'[j] = loc[j])]_lvars
\* the same assertion on the same actual passes after it regenerated (same instance, table unchanged)
RegenThenPass ==
    (last.act = "Regenerate") => refs[<<Resolve(last.inst, last.kind), last.name>>] = last.content
=============================================================================
