CONSTANTS
  Kinds <- MCKinds
  Paths <- MCPaths
  Contents <- MCContents
  Types <- MCTypes
  Arity <- MCArity
  EmitRows = FALSE
INIT MCInit
NEXT MCNext
INVARIANT TypeOK
INVARIANT RegenWritesActual
INVARIANT RegenThenPass
INVARIANT EmitCase
PROPERTY OnlyOnRequest
PROPERTY NormalModeFrame
PROPERTY ExactlySelected
PROPERTY SetRegenerationFrame
CHECK_DEADLOCK FALSE
