CONSTANTS
  Outs <- MCOuts
  Others <- MCOthers
  Contents <- MCContents
  Defects = {"SkipRemovePreviousOutputs"}
INIT MCInit
NEXT GNext
INVARIANT NoClobber
INVARIANT ScriptExists
INVARIANT ScriptPasses
INVARIANT Teeth
CHECK_DEADLOCK FALSE
