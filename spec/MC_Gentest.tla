------------------------------ MODULE MC_Gentest ------------------------------
EXTENDS Gentest
MCOuts == {"o1", "o2"}
MCOthers == {"in1"}
MCContents == {"x", "y"}
\* pre-existing directory: outputs from an earlier run or not, an input file, and either nothing or a
\* previous version of the script and its reference files
MCInit == /\ \E stale \in BOOLEAN, o1 \in {Absent, "x", "y"}, o2 \in {Absent, "y"} :
               fs0 = [p \in Paths |-> IF p = "o1" THEN o1 ELSE IF p = "o2" THEN o2 ELSE IF p \in Others THEN "x"
                                       ELSE IF stale THEN "y" ELSE Absent]
          /\ fs = fs0
          /\ beh \in Behaviours
          /\ gen = "none"
          /\ opts \in [stdout : BOOLEAN, stderr : BOOLEAN, nonzero : BOOLEAN, iterations : {1, 2}]
          /\ phase = "start" /\ verdict = <<>>
=============================================================================
