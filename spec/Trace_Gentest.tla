----------------------------- MODULE Trace_Gentest -----------------------------
(* Recorded gentest sessions on real working directories: Init (the directory  *)
(* before, the command's behaviour, the options), Generate (what the directory *)
(* looks like afterwards), RunTest (the verdict of every generated test),       *)
(* Perturb (the command starts to behave differently), RunTest.  The           *)
(* specification's variables are bound to what was OBSERVED; C11 / C12 are the  *)
(* specification's own invariants evaluated on those states.                    *)
EXTENDS Gentest, Json, IOUtils, TLCExt

Tr == ndJsonDeserialize(IOEnv.TRACE_FILE)
VARIABLE l
AsFs(r) == [p \in Paths |-> IF p \in DOMAIN r THEN r[p] ELSE Absent]
AsBeh(b) == [files |-> [o \in Outs |-> b.files[o]], STDOUT |-> b.STDOUT, STDERR |-> b.STDERR, exit |-> b.exit]

TraceInit == \E i \in {j \in 1..Len(Tr) : Tr[j].ev = "Init"} :
    /\ l = i + 1
    /\ fs0 = AsFs(Tr[i].fs) /\ fs = AsFs(Tr[i].fs)
    /\ beh = AsBeh(Tr[i].beh) /\ gen = "none"
    /\ opts = Tr[i].opts
    /\ phase = "start" /\ verdict = <<>>

TrStep(e) ==
    CASE e.ev = "Generate" ->
            /\ phase = "start"
            /\ phase' = IF beh.exit # 0 /\ ~opts.nonzero THEN "refused" ELSE "generated"
            /\ gen' = IF beh.exit # 0 /\ ~opts.nonzero THEN gen ELSE beh
            /\ fs' = AsFs(e.fs)
            /\ UNCHANGED <<fs0, beh, opts, verdict>>
      [] e.ev = "RunTest" ->
            /\ phase \in {"generated", "tested"}
            /\ phase' = "tested"
            /\ verdict' = [t \in Targets |-> e.verdict[t]]
            /\ fs' = AsFs(e.fs)
            /\ UNCHANGED <<fs0, beh, gen, opts>>
      [] e.ev = "Perturb" ->
            \* the specification's own actions, with the new behaviour bound to what the driver installed
            PerturbTo(AsBeh(e.beh))
TraceNext == l <= Len(Tr) /\ Tr[l].ev # "Init" /\ Tr[l].raised = "none" /\ TrStep(Tr[l]) /\ l' = l + 1

Bad == (IF l <= Len(Tr) /\ Tr[l].ev # "Init" /\ Tr[l].raised # "none" THEN {"CompletesWithoutError_" \o Tr[l].ev} ELSE {})
       \cup (IF NoClobber THEN {} ELSE {"NoClobber"})
       \cup (IF ScriptExists THEN {} ELSE {"ScriptExists"})
       \cup (IF l > 1 /\ Tr[l-1].ev = "Generate" /\ phase = "generated" /\ ~Tr[l-1].compiles THEN {"ScriptCompiles"} ELSE {})
       \cup (IF ScriptPasses THEN {} ELSE {"ScriptPasses"})
       \cup (IF Teeth THEN {} ELSE {"Teeth"})
       \cup (IF l > 1 /\ Tr[l-1].ev = "RunTest" /\ ~Tr[l-1].othertests THEN {"EveryGeneratedTestPasses"} ELSE {})
Conforms == Bad = {} \/ PrintT(ToJson([line |-> IF l > 1 THEN l - 1 ELSE 1, at |-> l, tid |-> Tr[IF l > 1 THEN l - 1 ELSE 1].tid, bad |-> Bad]))
Consumed == PrintT(ToJson([consumed |-> TLCGet("distinct"), lines |-> Len(Tr)]))
=============================================================================
