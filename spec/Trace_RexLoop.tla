---------------------------- MODULE Trace_RexLoop ----------------------------
(* Recorded runs of the real Extractor (steps logged by wrappers around        *)
(* random.*, batch_extract and sample_non_matches; match sets computed by the  *)
(* harness with Python's re).  Each run starts with an "Init" line carrying    *)
(* its parameters; the following lines must be explained, one by one, by the   *)
(* actions of RexLoop with the logged sets bound to the specification's        *)
(* variables.  The invariants of RexLoop are evaluated on every state.         *)
EXTENDS RexLoop, Sequences, Json, IOUtils, TLCExt

Tr == ndJsonDeserialize(IOEnv.TRACE_FILE)
VARIABLE l
ToSet(s) == {s[i] : i \in 1..Len(s)}

TraceInit == \E i \in {j \in 1..Len(Tr) : Tr[j].ev = "Init"} :
    /\ l = i + 1
    /\ p = [all |-> ToSet(Tr[i].all), doall |-> Tr[i].doall, doallexc |-> Tr[i].doallexc,
            maxatt |-> Tr[i].maxatt, seeded |-> Tr[i].seeded]
    /\ pc = IF SeedFirst THEN "seed0" ELSE "new"
    /\ W = {} /\ U = {} /\ F = {} /\ attempt = 1
    /\ prng = [origin |-> "global", saved |-> FALSE] /\ gdraws = 0

\* silent steps of the specification (no event is logged for them) are composed in front of the
\* logged action they enable
Logged(e) ==
    CASE e.ev = "Seed"          -> (Seed0 \/ SeedLate) /\ Seeded
      [] e.ev = "InitialSample" -> InitialSample /\ W' = ToSet(e.working) /\ gdraws' = e.gdraws
      [] e.ev = "BatchExtract"  -> BatchExtract /\ U' = ToSet(e.matched) /\ W = ToSet(e.working)
      [] e.ev = "CheckFailures" -> CheckFailures /\ F' = ToSet(e.failures) /\ gdraws' = e.gdraws
      [] e.ev = "Restore"       -> Restore /\ prng.saved
      [] e.ev = "Done"          -> pc = "done" /\ UNCHANGED vars
Silent == (~Seeded /\ (Seed0 \/ SeedLate)) \/ NoFailures \/ Extend \/ EmptyExit \/ (~prng.saved /\ Restore)

TraceNext == \/ (l <= Len(Tr) /\ Tr[l].ev # "Init" /\ Logged(Tr[l]) /\ l' = l + 1)
             \/ (l <= Len(Tr) /\ Tr[l].ev # "Init" /\ Silent /\ UNCHANGED l)

\* diagnosis configuration: print every line reached (used on a single rejected run)
ProgressPrint == PrintT(ToJson([at |-> l, pc |-> pc]))

\* the run's verdicts at its end (printed, not asserted: the harness classifies them)
Final == (l > 1 /\ l <= Len(Tr) + 1 /\ Tr[l - 1].ev = "Done") =>
            PrintT(ToJson([tid |-> Tr[l - 1].tid, covered |-> (All \subseteq U), seededonly |-> (Seeded => gdraws = 0),
                           restored |-> (prng.origin = "global" /\ ~prng.saved), lastfail |-> Cardinality(F),
                           attempt |-> attempt]))
=============================================================================
