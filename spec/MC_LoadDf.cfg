CONSTANTS
  Defects = {}
  EmitRows = TRUE
INIT Init
NEXT Next
INVARIANT ImplIsSpecInv
INVARIANT ExplicitWinsInv
INVARIANT FoundIsFirst
INVARIANT EmitCase
CHECK_DEADLOCK FALSE
