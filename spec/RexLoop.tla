------------------------------- MODULE RexLoop -------------------------------
(***************************************************************************)
(* rexpy's sample / extract / check-failures / extend loop and its PRNG     *)
(* discipline (C03, C14; Extractor.__init__ and Extractor.extract).         *)
(*                                                                         *)
(*   All     the distinct examples kept after cleaning (ids)                *)
(*   W       the working set the patterns are inferred from                 *)
(*   U       the set of examples matched by the current expressions         *)
(*           (only the union matters for coverage; the expressions          *)
(*           themselves are the subject of RexFrag and of the harness)      *)
(*   F       the failures reported by the last check                        *)
(*   prng    [origin : "global" | "seed", saved : BOOLEAN]                  *)
(*   gdraws  number of draws taken from the caller's (global) generator     *)
(*                                                                         *)
(* BatchExtract is the contract of pattern inference: it returns            *)
(* expressions that match at least the working set, and is otherwise        *)
(* unconstrained -- in particular NOT monotone in W.                        *)
(***************************************************************************)
EXTENDS Naturals, FiniteSets, TLC

CONSTANTS Defects, ParamSpace     \* ParamSpace: set of [all, doall, doallexc, maxatt, seeded] records
DefectNames == {"SeedAfterFirstSample", "LoopExitWithoutReextract"}

VARIABLES p, pc, W, U, F, attempt, prng, gdraws
vars == <<p, pc, W, U, F, attempt, prng, gdraws>>
\* the parameters of one run (fixed after Init): examples kept, Size settings, whether a seed was given
All == p.all
DoAll == p.doall
DoAllExc == p.doallexc
MaxAttempts == p.maxatt
Seeded == p.seeded

SubsetsOfSize(S, n) == {X \in SUBSET S : Cardinality(X) = n}
SeedFirst == "SeedAfterFirstSample" \notin Defects

Init == /\ p \in ParamSpace
        /\ pc = IF SeedFirst THEN "seed0" ELSE "new"
        /\ W = {} /\ U = {} /\ F = {} /\ attempt = 1
        /\ prng = [origin |-> "global", saved |-> FALSE]
        /\ gdraws = 0

Draw == IF prng.origin = "global" THEN gdraws + 1 ELSE gdraws

\* repaired design: the generator is seeded (and saved) before anything is drawn
Seed0 == /\ pc = "seed0"
         /\ prng' = IF Seeded THEN [origin |-> "seed", saved |-> TRUE] ELSE prng
         /\ pc' = "new"
         /\ UNCHANGED <<p, W, U, F, attempt, gdraws>>

\* Extractor.__init__: check_fn([], do_all) -> sample_non_matches([], do_all)
InitialSample ==
    /\ pc = "new"
    /\ IF Cardinality(All) > DoAll /\ Cardinality(All) > DoAllExc
       THEN /\ W' \in SubsetsOfSize(All, DoAllExc)
            /\ gdraws' = Draw
       ELSE /\ W' = All
            /\ UNCHANGED gdraws
    /\ pc' = IF SeedFirst THEN "seeded" ELSE "sampled"
    /\ UNCHANGED <<p, U, F, attempt, prng>>

\* Extractor.extract: PRNGState(seed) -- the pinned tree seeds only here, after the first sample
SeedLate == /\ pc = "sampled"
            /\ prng' = IF Seeded THEN [origin |-> "seed", saved |-> TRUE] ELSE prng
            /\ pc' = "seeded"
            /\ UNCHANGED <<p, W, U, F, attempt, gdraws>>

EmptyExit == /\ pc = "seeded" /\ W = {}            \* no usable examples: results = None
             /\ pc' = "exit"
             /\ UNCHANGED <<p, W, U, F, attempt, prng, gdraws>>

BatchExtract == /\ pc \in {"seeded", "extended", "final"} /\ W # {}
                /\ U' \in {X \in SUBSET All : W \subseteq X}
                /\ pc' = IF pc = "final" THEN "exit" ELSE "extracted"
                /\ UNCHANGED <<p, W, F, attempt, prng, gdraws>>

\* check_fn(results.rex, maxN): all non-matches, or a sample of do_all_exceptions of them
CheckFailures ==
    /\ pc = "extracted"
    /\ LET fails == All \ U
           maxN  == IF attempt > MaxAttempts THEN 0 ELSE DoAllExc      \* 0 stands for None
       IN IF maxN # 0 /\ Cardinality(fails) > maxN
          THEN F' \in SubsetsOfSize(fails, DoAllExc) /\ gdraws' = Draw
          ELSE F' = fails /\ UNCHANGED gdraws
    /\ pc' = "checked"
    /\ UNCHANGED <<p, W, U, attempt, prng>>

NoFailures == /\ pc = "checked" /\ F = {}
              /\ pc' = "exit"
              /\ UNCHANGED <<p, W, U, F, attempt, prng, gdraws>>

\* failures are added to the working set and the loop goes round again -- unless this was the last
\* attempt: the pinned tree then leaves the loop with the expressions it already had; the repaired
\* design gives up sampling, takes ALL examples and extracts once more
Extend ==
    /\ pc = "checked" /\ F # {}
    /\ attempt' = attempt + 1
    /\ IF attempt + 1 <= MaxAttempts + 1
       THEN W' = W \cup F /\ pc' = "extended"
       ELSE IF "LoopExitWithoutReextract" \in Defects
            THEN W' = W \cup F /\ pc' = "exit"
            ELSE W' = All /\ pc' = "final"
    /\ UNCHANGED <<p, U, F, prng, gdraws>>

\* finally: prng_state.restore()
Restore == /\ pc = "exit"
           /\ prng' = IF prng.saved THEN [origin |-> "global", saved |-> FALSE] ELSE prng
           /\ pc' = "done"
           /\ UNCHANGED <<p, W, U, F, attempt, gdraws>>

Next == Seed0 \/ InitialSample \/ SeedLate \/ EmptyExit \/ BatchExtract \/ CheckFailures \/ NoFailures
        \/ Extend \/ Restore
Spec == Init /\ [][Next]_vars /\ WF_vars(Next)

----------------------------------------------------------------------------
TypeOK == /\ W \subseteq All /\ U \subseteq All /\ F \subseteq All
          /\ pc \in {"seed0", "new", "sampled", "seeded", "extracted", "checked", "extended", "final", "exit", "done"}

\* C03: every example is matched by some returned expression
Covered == pc = "done" => All \subseteq U
\* C14: with a seed, no draw is taken from the caller's generator, and it is restored
SeededOnly   == Seeded => gdraws = 0
PrngRestored == pc = "done" => prng.origin = "global" /\ ~prng.saved
\* the loop ends
Terminates == <>(pc = "done")
AttemptBound == attempt <= MaxAttempts + 2
=============================================================================
