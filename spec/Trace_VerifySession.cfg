INIT TraceInit
NEXT TraceNext
INVARIANT Conforms
INVARIANT Closure
POSTCONDITION Consumed
CHECK_DEADLOCK FALSE
