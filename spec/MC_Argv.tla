------------------------------ MODULE MC_Argv ------------------------------
(* Exhaustive instance of Argv: every argv of <= MaxArgs tokens over Vocab.   *)
(* One initial state per case; the invariants are evaluated on each.         *)
EXTENDS Argv, Json

CONSTANTS MaxArgs, EmitRows
VARIABLE av

Vocab == { T1(<<"W">>), T1(<<"1">>), T1(<<"0">>), T1(<<"v">>), T1(<<"q">>), T1(<<"f">>),
           T1(<<"1", "v">>), T1(<<"v", "W">>), T1(<<"W", "1">>),
           TTag, TIsTag, TWAll1, TWAll2, TQuiet1, TQuiet2,
           TW1, TW2, TW3,
           Word("A"), Word("B"), Word("table"), <<"table", ",", "graph">>,
           <<"graph", ",">> }         \* a list that ends in a comma names an empty kind (which no assertion has)

Prog == <<"prog">>

\* cases are generated as a tree (one token appended per step) so that the workers share
\* the evaluation of the invariants; every argv of <= MaxArgs tokens is one state
Init == av = <<Prog>>
Next == Len(av) <= MaxArgs /\ \E t \in Vocab : av' = Append(av, t)

Row(a) == [argv |-> a, ws |-> WellShaped(a), spec |-> SpecFlags(a), impl |-> ImplFlags(a)]

\* the design claim: on well-shaped command lines the (repaired) scanner computes the
\* documented meaning
ImplIsSpec == WellShaped(av) => SameFlags(ImplFlags(av), SpecFlags(av))

\* never loses the program name slot entirely unless it raised
KeepsSomething == LET r == ImplFlags(av) IN (WellShaped(av) /\ ~r.raised) => Len(r.argv) >= 1

EmitCase == EmitRows => PrintT(ToJson(Row(av)))

\* vacuity guard: counted by the harness from the rows (number of well-shaped cases)
=============================================================================
