CONSTANTS
  MaxKeys = 3
  EmitRows = TRUE
INIT Init
NEXT Next
INVARIANT FixpointHolds
INVARIANT UnknownNeutralHolds
INVARIANT OrderFreeHolds
INVARIANT EmitCase
CHECK_DEADLOCK FALSE
