CONSTANTS
  ParamSpace = {}
  Defects = {"LoopExitWithoutReextract"}
INIT TraceInit
NEXT TraceNext
INVARIANT TypeOK
INVARIANT Final
CHECK_DEADLOCK FALSE
