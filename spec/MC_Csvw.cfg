CONSTANTS
  Defects = {}
  EmitRows = TRUE
INIT Init
NEXT Next
INVARIANT TranslateIsSpec
INVARIANT KwIsSpec
INVARIANT EmitCase
CHECK_DEADLOCK FALSE
