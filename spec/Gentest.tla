-------------------------------- MODULE Gentest --------------------------------
(***************************************************************************)
(* tdda gentest (C11, C12): generating a reference test for a repeatable     *)
(* shell command, and what the generated test then does.                     *)
(*                                                                         *)
(* The working directory is a map from path ids to content ids (or Absent).  *)
(*   Outs      files the command writes (cwd and $TMPDIR), with the content   *)
(*             it writes there (a function of nothing: the command is         *)
(*             repeatable)                                                    *)
(*   Others    files that exist before generation and that the command does   *)
(*             not touch (inputs, unrelated files)                            *)
(*   "script"  the generated test script; "ref:<x>" the reference copy of x   *)
(*             (x an output, or "STDOUT" / "STDERR")                          *)
(* Streams and the exit status are part of the command's behaviour `beh`.    *)
(* Checked things (`targets`): the outputs, the two streams (unless switched *)
(* off) and the exit status.                                                 *)
(***************************************************************************)
EXTENDS Naturals, FiniteSets, Sequences, TLC

CONSTANTS Outs, Others, Contents, Defects
DefectNames == {"SkipRemovePreviousOutputs"}
Absent == "absent"
Streams == {"STDOUT", "STDERR"}
RefOf(x) == "ref:" \o x
Paths == Outs \cup Others \cup {"script"} \cup {RefOf(x) : x \in Outs \cup Streams}

VARIABLES fs,        \* Paths -> Contents \cup {Absent}
          fs0,       \* the directory before generation
          beh,       \* what the command does NOW: [files : Outs -> content, STDOUT, STDERR : content, exit : Nat]
          gen,       \* what the command did at generation time (same shape) or "none"
          opts,      \* [stdout, stderr : BOOLEAN (checked), nonzero : BOOLEAN (--non-zero-exit), iterations : 1..3]
          phase,     \* "start" | "generated" | "refused" | "tested"
          verdict    \* test name -> "pass" | "fail"  (after RunGeneratedTest)
gvars == <<fs, fs0, beh, gen, opts, phase, verdict>>

ExitCodes == {0, 3, 4}
Behaviours == [files : [Outs -> Contents], STDOUT : Contents, STDERR : Contents, exit : {0, 3}]
GInit == /\ fs0 \in [Paths -> Contents \cup {Absent}]
         /\ fs = fs0
         /\ beh \in Behaviours
         /\ gen = "none"
         /\ opts \in [stdout : BOOLEAN, stderr : BOOLEAN, nonzero : BOOLEAN, iterations : 1..3]
         /\ phase = "start" /\ verdict = <<>>

RunOnce(f, b) == [p \in Paths |-> IF p \in Outs THEN b.files[p] ELSE f[p]]

\* tdda gentest: empty the reference directory and remove the old script; run the command N times; copy
\* the outputs and streams into the reference directory; write the script.  A non-zero exit status
\* without --non-zero-exit refuses to generate (documented).
Generate ==
    /\ phase = "start"
    /\ IF beh.exit # 0 /\ ~opts.nonzero
       THEN /\ phase' = "refused"
            /\ fs' = [p \in Paths |-> IF p = "script" \/ p \in {RefOf(x) : x \in Outs \cup Streams} THEN Absent
                                      ELSE RunOnce(fs, beh)[p]]
            /\ UNCHANGED gen
       ELSE /\ phase' = "generated"
            /\ gen' = beh
            /\ fs' = [p \in Paths |->
                        IF p = "script" THEN "script-text"
                        ELSE IF p \in {RefOf(x) : x \in Outs} THEN beh.files[CHOOSE x \in Outs : RefOf(x) = p]
                        ELSE IF p = RefOf("STDOUT") THEN (IF opts.stdout THEN beh.STDOUT ELSE Absent)
                        ELSE IF p = RefOf("STDERR") THEN (IF opts.stderr THEN beh.STDERR ELSE Absent)
                        ELSE RunOnce(fs, beh)[p]]
    /\ UNCHANGED <<fs0, beh, opts, verdict>>

\* the command starts behaving differently: one thing changes with respect to generation time (a file it no
\* longer produces gets Absent), or it goes back to what it did then.  Verdicts of earlier runs say nothing
\* about the new behaviour.
Targets == Outs \cup {t \in Streams : IF t = "STDOUT" THEN opts.stdout ELSE opts.stderr} \cup {"exit"}
Changed(t, c) == IF t \in Outs THEN [gen EXCEPT !.files[t] = c]
                 ELSE IF t = "STDOUT" THEN [gen EXCEPT !.STDOUT = c]
                 ELSE IF t = "STDERR" THEN [gen EXCEPT !.STDERR = c]
                 ELSE [gen EXCEPT !.exit = c]          \* another exit status (zero or not)
ValueAt(b, t) == IF t \in Outs THEN b.files[t] ELSE IF t = "STDOUT" THEN b.STDOUT ELSE IF t = "STDERR" THEN b.STDERR ELSE b.exit
PerturbTo(b) ==
    /\ phase \in {"generated", "tested"}
    /\ b # beh
    /\ b = gen \/ \E t \in Targets : b = Changed(t, ValueAt(b, t))
    /\ beh' = b
    /\ verdict' = <<>>
    /\ UNCHANGED <<fs, fs0, gen, opts, phase>>
Perturb(t, c) == PerturbTo(Changed(t, c))
Restore == PerturbTo(gen)

\* the generated test: remove the previous outputs, run the command, one test per checked thing
RunGeneratedTest ==
    /\ phase \in {"generated", "tested"}
    /\ LET cleared == IF "SkipRemovePreviousOutputs" \in Defects THEN fs
                      ELSE [p \in Paths |-> IF p \in Outs THEN Absent ELSE fs[p]]
           after   == [p \in Paths |-> IF p \in Outs /\ beh.files[p] # Absent THEN beh.files[p] ELSE cleared[p]] IN
       /\ fs' = after
       /\ verdict' = [t \in Targets |->
                        IF t \in Outs THEN (IF after[t] = fs[RefOf(t)] THEN "pass" ELSE "fail")
                        ELSE IF t = "STDOUT" THEN (IF beh.STDOUT = fs[RefOf("STDOUT")] THEN "pass" ELSE "fail")
                        ELSE IF t = "STDERR" THEN (IF beh.STDERR = fs[RefOf("STDERR")] THEN "pass" ELSE "fail")
                        ELSE (IF beh.exit = gen.exit THEN "pass" ELSE "fail")]
    /\ phase' = "tested"
    /\ UNCHANGED <<fs0, beh, gen, opts>>

GNext == Generate \/ RunGeneratedTest \/ Restore
         \/ (\E t \in Targets \ {"exit"}, c \in Contents \cup {Absent} : ((t \in Outs \/ c # Absent) /\ Perturb(t, c)))
         \/ (\E c \in ExitCodes : Perturb("exit", c))
GSpec == GInit /\ [][GNext]_gvars

----------------------------------------------------------------------------
\* C11: nothing is altered or removed except the old script and reference directory; the command's own
\* outputs are left as the command wrote them
NoClobber == /\ phase = "generated" => \A p \in Outs \cup Others : fs[p] = IF p \in Outs THEN gen.files[p] ELSE fs0[p]
             /\ phase = "refused"   => \A p \in Outs \cup Others : fs[p] = IF p \in Outs THEN beh.files[p] ELSE fs0[p]
             \* nor does running the generated test touch files that are not the command's outputs
             /\ phase = "tested"    => \A p \in Others : fs[p] = fs0[p]
ScriptExists == phase = "generated" => fs["script"] # Absent
\* C11: run straight afterwards, the generated test passes
ScriptPasses == (phase = "tested" /\ beh = gen) => \A t \in DOMAIN verdict : verdict[t] = "pass"
\* C12: a changed command is reported by the test of the thing that changed -- and only by that one
Teeth == (phase = "tested" /\ beh # gen) =>
            \A t \in DOMAIN verdict :
               (verdict[t] # "pass") <=> (IF t \in Outs THEN beh.files[t] # gen.files[t]
                                          ELSE IF t = "STDOUT" THEN beh.STDOUT # gen.STDOUT
                                          ELSE IF t = "STDERR" THEN beh.STDERR # gen.STDERR
                                          ELSE beh.exit # gen.exit)
=============================================================================
