--------------------------- MODULE MC_FrameCompare ---------------------------
(* Reference frames x single mutations x option sets.  One state per           *)
(* (reference frame, mutation); the option sets are quantified per state.      *)
EXTENDS FrameCompare, Json
CONSTANTS EmitRows
VARIABLES ref, df, mut

C(n, t, v) == [n |-> n, t |-> t, v |-> v]
Refs == { << C("a", "int64", <<1, 2, 3>>), C("b", "float64", <<12340, 22340, Null>>) >>,
          << C("a", "int64", <<3, 1, 2>>), C("b", "object", <<1, 2, Null>>) >>,
          << C("a", "float64", <<12340, 4000, 31000>>), C("b", "bool", <<0, 1, 1>>) >>,
          << C("a", "Int64", <<1, Null, 3>>), C("b", "string", <<2, 2, 1>>) >>,
          << C("a", "int64", <<-1, 2, 3>>), C("b", "datetime64[ns]", <<7, 8, Null>>) >>,
          << C("a", "category", <<1, 2, 1>>), C("b", "float64", <<0, -12340, 99990>>) >>,
          << C("a", "int64", <<>>), C("b", "float64", <<>>) >>,
          << C("a", "object", <<1, 2, 3>>) >> }

SetCell(f, c, r, x) == [f EXCEPT ![c].v[r] = x]
AltTypes(t) == CASE t = "int64" -> {"Int64", "float64"} [] t = "Int64" -> {"int64"} [] t = "float64" -> {"int64"}
                 [] t = "object" -> {"string", "category"} [] t = "string" -> {"object", "category"} [] t = "category" -> {"string", "object"}
                 [] t = "bool" -> {"boolean", "int64"} [] t = "datetime64[ns]" -> {"datetime64[us]", "object"} [] OTHER -> {}
\* converting the cells when the dtype changes between int-coded and 10^-4-coded values
Conv(v, t1, t2) == IF v = Null THEN Null
                   ELSE IF Loose(t1) # "float" /\ Loose(t2) = "float" THEN v * 10000
                   ELSE IF Loose(t1) = "float" /\ Loose(t2) # "float" THEN v \div 10000 ELSE v
CellAlts(t, v) == IF Loose(t) = "float" THEN (IF v = Null THEN {0} ELSE {v + 1, v + 60, v + 10000, Null})
                  ELSE IF Loose(t) = "bool" THEN (IF v = Null THEN {1} ELSE {1 - v, Null})
                  ELSE (IF v = Null THEN {1} ELSE {v + 1, Null})
Mutations(f) ==
    {[k |-> "copy", f |-> f]}
    \cup {[k |-> "cell", f |-> SetCell(f, c, r, x)] : c \in 1..Len(f), r \in 1..NRows(f), x \in UNION {CellAlts(f[cc].t, f[cc].v[rr]) : cc \in 1..Len(f), rr \in 1..NRows(f)}}
    \cup {[k |-> "name", f |-> [f EXCEPT ![c].n = "z"]] : c \in 1..Len(f)}
    \cup UNION {{[k |-> "type", f |-> [f EXCEPT ![c] = [n |-> f[c].n, t |-> t2, v |-> [i \in 1..Len(f[c].v) |-> Conv(f[c].v[i], f[c].t, t2)]]]] :
                    t2 \in AltTypes(f[c].t)} : c \in 1..Len(f)}
    \cup (IF Len(f) = 2 THEN {[k |-> "order", f |-> <<f[2], f[1]>>], [k |-> "dropcol", f |-> <<f[1]>>]} ELSE {})
    \cup {[k |-> "addcol", f |-> Append(f, C("x", "int64", [i \in 1..NRows(f) |-> 0]))]}
    \cup (IF NRows(f) > 0 THEN {[k |-> "droprow", f |-> [c \in 1..Len(f) |-> [f[c] EXCEPT !.v = SubSeq(@, 1, Len(@) - 1)]]]} ELSE {})
    \cup {[k |-> "addrow", f |-> [c \in 1..Len(f) |-> [f[c] EXCEPT !.v = Append(@, IF Loose(f[c].t) = "float" THEN 70000 ELSE 9)]]]}

WellTyped(m, f) == \A c \in 1..Len(m.f) : m.k = "cell" =>
    \A r \in 1..NRows(m.f) : m.f[c].v[r] = f[c].v[r] \/ m.f[c].v[r] \in CellAlts(f[c].t, f[c].v[r])

Init == ref \in Refs /\ df = ref /\ mut = "init"
Next == mut = "init" /\ \E m \in {x \in Mutations(ref) : WellTyped(x, ref)} : df' = m.f /\ mut' = m.k /\ UNCHANGED ref

FAll == [mode |-> "all", cols |-> {}]
Flags == {FAll, [mode |-> "none", cols |-> {}], [mode |-> "list", cols |-> {"a"}]}
Default == [ct |-> FAll, cd |-> FAll, co |-> FAll, cx |-> FAll, sortby |-> "none", cond |-> "none", prec |-> 4, tm |-> "strict"]
OptSets == {[Default EXCEPT !.ct = a, !.cd = b, !.co = c, !.cx = d, !.tm = t] : a, b, c, d \in Flags, t \in {"strict", "medium", "permissive"}}
           \cup {[Default EXCEPT !.sortby = s, !.cond = k, !.prec = p] : s \in {"none", "a"}, k \in {"none", "nonneg"}, p \in {0, 2, 4}}
\* sort keys must be distinct and non-null in both frames
SortOK(f, o) == o.sortby = "none" \/ (o.sortby \in Names(f) /\ \A i, j \in 1..NRows(f) :
                   Col(f, o.sortby).v[i] # Null /\ (i # j => Col(f, o.sortby).v[i] # Col(f, o.sortby).v[j]))
\* the model's row condition looks at column "a", which must then be numeric in both frames
CondOK(f, o) == o.cond = "none" \/ ("a" \in Names(f) => Loose(Col(f, "a").t) \in {"int", "float"})
Dem(o) == Demanded(df, ref, o) /\ SortOK(df, o) /\ SortOK(ref, o) /\ CondOK(df, o) /\ CondOK(ref, o)

ImplIsSpec == mut # "init" => \A o \in OptSets : Dem(o) => ImplOutcome(df, ref, o) = SpecOutcome(df, ref, o)
CopyPasses == mut = "copy" => \A o \in OptSets : Dem(o) => SpecEqual(df, ref, o)
\* with every check on, a change of a name, type, position, row count or of a value beyond the precision fails
\* (a categorical column and a string column with the same values are the same type to the comparison)
CanonFrame(f) == [i \in 1..Len(f) |-> [f[i] EXCEPT !.t = Canon(@)]]
SingleMutationFails == (mut \notin {"init", "copy"} /\ CanonFrame(df) # CanonFrame(ref)) => ~SpecEqual(df, ref, Default)
NeverError == mut # "init" => \A o \in OptSets : Dem(o) => ImplOutcome(df, ref, o) # "error"

OptRow(o) == [o |-> o, dem |-> Dem(o), spec |-> IF Dem(o) THEN SpecOutcome(df, ref, o) ELSE "n/a",
              impl |-> IF Dem(o) THEN ImplOutcome(df, ref, o) ELSE "n/a"]
EmitCase == (EmitRows /\ mut # "init") => PrintT(ToJson([ref |-> ref, df |-> df, mut |-> mut, res |-> {OptRow(o) : o \in OptSets}]))
=============================================================================
