----------------------------- MODULE Trace_RefLoc -----------------------------
(* Recorded sessions with several ReferenceTest instances, class-level and per-instance locations and     *)
(* relative reference names.  The tables are NOT logged: the specification's own actions carry them.      *)
(* Every Assert line says which files (directory, name) changed on disk and how the assertion ended.      *)
EXTENDS RefLoc, Json, IOUtils, TLCExt
Tr == ndJsonDeserialize(IOEnv.TRACE_FILE)
VARIABLE l
ToSet(s) == {s[i] : i \in 1..Len(s)}
TraceInit == \E i \in {j \in 1..Len(Tr) : Tr[j].ev = "Init"} :
    /\ l = i + 1
    /\ clsloc = [k \in KindKeys |-> Unset]
    /\ loc = [x \in Insts |-> [k \in KindKeys |-> Unset]]
    /\ alive = {}
    /\ refs = [f \in Files |-> Absent]
    /\ last = [act |-> "none", wrote |-> {}]
Step(e) == CASE e.ev = "SetDefault"  -> SetDefault(e.kind, e.dir)
             [] e.ev = "NewInstance" -> NewInstance(e.inst)
             [] e.ev = "SetLocation" -> SetLocation(e.inst, e.kind, e.dir)
             [] e.ev = "Assert" -> IF e.regen THEN Regenerate(e.inst, e.kind, e.name, e.content)
                                   ELSE Check(e.inst, e.kind, e.name, e.content)
TraceNext == l <= Len(Tr) /\ Tr[l].ev # "Init" /\ Step(Tr[l]) /\ l' = l + 1
Bad == IF l = 1 \/ Tr[l-1].ev # "Assert" THEN {}
       ELSE LET e == Tr[l-1]
                w == {<<e.wrote[i][1], e.wrote[i][2]>> : i \in 1..Len(e.wrote)} IN
            (IF w = last.wrote THEN {} ELSE
                IF last.wrote = {} THEN {"NormalModeLeavesReferencesAlone"} ELSE {"RegenerationWritesItsOwnReference"})
            \cup (IF e.outcome = "error" THEN {"NoError"} ELSE {})
            \cup (IF e.outcome # "error" /\ last.outcome = "pass" /\ e.outcome # "ok" THEN {"Outcome_pass"} ELSE {})
            \cup (IF e.outcome # "error" /\ last.outcome = "fail" /\ e.outcome # "fail" THEN {"Outcome_fail"} ELSE {})
Conforms == Bad = {} \/ PrintT(ToJson([line |-> l - 1, tid |-> Tr[l-1].tid, bad |-> Bad]))
Consumed == PrintT(ToJson([consumed |-> TLCGet("distinct"), lines |-> Len(Tr)]))
=============================================================================
