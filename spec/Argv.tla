------------------------------- MODULE Argv -------------------------------
(***************************************************************************)
(* Command-line handling of tdda reference tests (C10 argv facet, C19).     *)
(*                                                                         *)
(* A token is a sequence of ATOMS (strings): "-1v" is <<"-","1","v">>,     *)
(* "--tagged" is <<"-","-","tagged">>, "table,graph" is                    *)
(* <<"table",",","graph">>.  Python string operations used by the code     *)
(* (startswith, replace of a one-character flag, split(','), equality,     *)
(* list.index) are exact on this representation.                           *)
(*                                                                         *)
(*   ImplFlags  transcription of referencetestcase._set_flags_from_argv    *)
(*              (Defects selects the known deviations of the pinned tree)  *)
(*   SpecFlags  what the documentation says the options mean               *)
(*   Module / ImplSelected / SpecSelected: which tests a run executes      *)
(***************************************************************************)
EXTENDS Naturals, Sequences, FiniteSets, TLC

CONSTANTS Defects          \* subset of DefectNames
DefectNames == {"ArgvWriteOneEarly"}

----------------------------------------------------------------------------
(* generic sequence helpers (CommunityModules names avoided on purpose) *)
RECURSIVE AFilter(_, _)
AFilter(s, drop) == IF s = <<>> THEN <<>>
                    ELSE IF Head(s) \in drop THEN AFilter(Tail(s), drop)
                    ELSE <<Head(s)>> \o AFilter(Tail(s), drop)

RECURSIVE DropEmpty(_)
DropEmpty(s) == IF s = <<>> THEN <<>>
                ELSE IF Head(s) = <<>> THEN DropEmpty(Tail(s))
                ELSE <<Head(s)>> \o DropEmpty(Tail(s))

Has(s, x) == \E i \in 1..Len(s) : s[i] = x
\* Python list.index (0-based); only used when Has(s, x)
Idx0(s, x) == (CHOOSE i \in 1..Len(s) : s[i] = x /\ \A j \in 1..(i-1) : s[j] # x) - 1
\* argv[:n] and argv[n:] with 0-based n
Take(s, n) == SubSeq(s, 1, n)
Drop(s, n) == SubSeq(s, n + 1, Len(s))
RemoveIdx0(s, n) == Take(s, n) \o Drop(s, n + 1)
SetAt0(s, n, v) == [s EXCEPT ![n + 1] = v]

\* split a token on "," atoms -> sequence of tokens (Python str.split(','))
RECURSIVE SplitComma(_, _)
SplitComma(tok, cur) ==
    IF tok = <<>> THEN <<cur>>
    ELSE IF Head(tok) = "," THEN <<cur>> \o SplitComma(Tail(tok), <<>>)
    ELSE SplitComma(Tail(tok), Append(cur, Head(tok)))

RECURSIVE KindsOf(_)
KindsOf(toks) == IF toks = <<>> THEN {}
                 ELSE {SplitComma(Head(toks), <<>>)[k] : k \in 1..Len(SplitComma(Head(toks), <<>>))}
                      \cup KindsOf(Tail(toks))

----------------------------------------------------------------------------
(* token vocabulary helpers *)
IsDash1(t) == Len(t) >= 1 /\ t[1] = "-" /\ ~(Len(t) >= 2 /\ t[2] = "-")
IsDash2(t) == Len(t) >= 2 /\ t[1] = "-" /\ t[2] = "-"
T1(cs)  == <<"-">> \o cs                      \* short option with flag characters cs
T2(n)   == <<"-", "-", n>>                    \* long option
Word(n) == <<n>>

TQuiet1 == T1(<<"w", "q", "u", "i", "e", "t">>)       \* -wquiet
TQuiet2 == T2("wquiet")
TWAll1  == T2("W")
TWAll2  == T2("write-all")
TW1     == T1(<<"w">>)                                 \* -w
TW2     == T2("w")
TW3     == T2("write")
TTag    == T2("tagged")
TIsTag  == T2("istagged")

----------------------------------------------------------------------------
(* ImplFlags: transcription of _set_flags_from_argv                        *)

\* first loop: for i, arg in enumerate(argv[1:]) ... (iterates a copy of the tail)
RECURSIVE Loop1(_, _, _)
Loop1(orig, i, st) ==
    IF i >= Len(orig) THEN st
    ELSE LET arg == orig[i + 1] IN
         IF IsDash1(arg)
         THEN LET flags    == Tail(arg)
                  stripped == AFilter(arg, {f \in {"W", "1", "0"} : Has(flags, f)})
                  newarg   == IF stripped = <<"-">> THEN <<>> ELSE stripped
                  target   == IF "ArgvWriteOneEarly" \in Defects THEN i ELSE i + 1
              IN Loop1(orig, i + 1,
                       [st EXCEPT !.argv   = SetAt0(st.argv, target, newarg),
                                  !.regen  = st.regen \/ Has(flags, "W"),
                                  !.tagged = st.tagged \/ Has(flags, "1"),
                                  !.check  = st.check \/ Has(flags, "0")])
         ELSE st      \* break

StepQuiet(st, flag) ==
    IF Has(st.argv, flag)
    THEN [st EXCEPT !.quiet = TRUE, !.argv = RemoveIdx0(st.argv, Idx0(st.argv, flag))]
    ELSE st

\* for writeflag in ('--W', '--write-all'): ... break after the first one that is removed
StepWriteAll(st) ==
    LET try(s, flag) == IF Has(s.argv, flag) /\ Idx0(s.argv, flag) # 0
                        THEN [s EXCEPT !.regen = TRUE,
                                       !.argv = RemoveIdx0(s.argv, Idx0(s.argv, flag))]
                        ELSE s
        s1 == try(st, TWAll1)
    IN IF s1 # st THEN s1 ELSE try(st, TWAll2)

\* for writeflag in ('-w', '--w', '--write'): first one present wins (break)
StepWrite(st) ==
    LET present == <<Has(st.argv, TW1), Has(st.argv, TW2), Has(st.argv, TW3)>>
        flag    == IF present[1] THEN TW1 ELSE IF present[2] THEN TW2 ELSE TW3
    IN IF ~(present[1] \/ present[2] \/ present[3]) THEN st
       ELSE LET idx == Idx0(st.argv, flag) IN
            IF idx # 0 /\ ~(idx < Len(st.argv) - 1)
            THEN [st EXCEPT !.raised = TRUE]
            ELSE [st EXCEPT !.kinds = IF idx # 0 THEN KindsOf(Drop(st.argv, idx + 1)) ELSE {},
                            !.argv  = Take(st.argv, idx)]

StepTagged(st) ==
    LET s1 == IF Has(st.argv, TTag) /\ Idx0(st.argv, TTag) # 0
              THEN [st EXCEPT !.tagged = TRUE, !.argv = RemoveIdx0(st.argv, Idx0(st.argv, TTag))]
              ELSE st
    IN IF Has(s1.argv, TIsTag) /\ Idx0(s1.argv, TIsTag) # 0
       THEN [s1 EXCEPT !.check = TRUE, !.argv = RemoveIdx0(s1.argv, Idx0(s1.argv, TIsTag))]
       ELSE s1

ImplFlags(argv) ==
    LET st0 == [argv |-> argv, regen |-> FALSE, tagged |-> FALSE, check |-> FALSE,
                quiet |-> FALSE, kinds |-> {}, raised |-> FALSE]
        s1  == Loop1(Tail(argv), 0, st0)
        s2  == [s1 EXCEPT !.argv = DropEmpty(s1.argv)]
        s3  == StepQuiet(StepQuiet(s2, TQuiet1), TQuiet2)
        s4  == StepWriteAll(s3)
        s5  == StepWrite(s4)
    IN IF s5.raised THEN s5 ELSE StepTagged(s5)

----------------------------------------------------------------------------
(* SpecFlags: the documented meaning, defined on well-shaped command lines *)

TddaShortChars == {"W", "1", "0"}
IsTddaLong(t)  == t \in {TQuiet1, TQuiet2, TWAll1, TWAll2, TTag, TIsTag}
IsWriteFlag(t) == t \in {TW1, TW2, TW3}
IsShortFlags(t) == IsDash1(t) /\ t # TW1 /\ t # TQuiet1      \* -v, -1, -W1, -vq ...
IsName(t) == Len(t) >= 1 /\ t[1] # "-"

Args(argv) == Tail(argv)
WritePos(a) == IF \E i \in 1..Len(a) : IsWriteFlag(a[i])
               THEN CHOOSE i \in 1..Len(a) : IsWriteFlag(a[i]) /\ \A j \in 1..(i-1) : ~IsWriteFlag(a[j])
               ELSE Len(a) + 1
\* the part of the command line before a --write option (which consumes everything after it)
Front(a) == SubSeq(a, 1, WritePos(a) - 1)
Back(a)  == SubSeq(a, WritePos(a) + 1, Len(a))

CountWhere(s, P(_)) == Cardinality({i \in 1..Len(s) : P(s[i])})

WantsTagged(a) == \E i \in 1..Len(Front(a)) :
                     Front(a)[i] = TTag \/ (IsShortFlags(Front(a)[i]) /\ Has(Front(a)[i], "1"))
WantsCheck(a)  == \E i \in 1..Len(Front(a)) :
                     Front(a)[i] = TIsTag \/ (IsShortFlags(Front(a)[i]) /\ Has(Front(a)[i], "0"))
WantsAll(a)    == \E i \in 1..Len(Front(a)) :
                     Front(a)[i] \in {TWAll1, TWAll2} \/ (IsShortFlags(Front(a)[i]) /\ Has(Front(a)[i], "W"))
WantsQuiet(a)  == \E i \in 1..Len(Front(a)) : Front(a)[i] \in {TQuiet1, TQuiet2}

\* what unittest should be left with: tdda options and their characters removed
RECURSIVE Clean(_)
Clean(f) == IF f = <<>> THEN <<>>
            ELSE LET t == Head(f) IN
                 IF IsTddaLong(t) THEN Clean(Tail(f))
                 ELSE IF IsShortFlags(t)
                      THEN LET s == AFilter(t, TddaShortChars)
                           IN (IF s = <<"-">> THEN <<>> ELSE <<s>>) \o Clean(Tail(f))
                      ELSE <<t>> \o Clean(Tail(f))

\* well-shapedness (DESIGN Appendix A): each tdda option at most once and in one spelling;
\* combined short flags come before any long option or name (the scanner stops there);
\* names come after every option of the front part; --write has >= 1 kind after it and only kinds.
WellShaped(argv) ==
    LET a == Args(argv)
        f == Front(a)
        b == Back(a)
        nTag  == CountWhere(f, LAMBDA t : t = TTag) + CountWhere(f, LAMBDA t : IsShortFlags(t) /\ Has(t, "1"))
        nChk  == CountWhere(f, LAMBDA t : t = TIsTag) + CountWhere(f, LAMBDA t : IsShortFlags(t) /\ Has(t, "0"))
        nAll  == CountWhere(f, LAMBDA t : t \in {TWAll1, TWAll2}) + CountWhere(f, LAMBDA t : IsShortFlags(t) /\ Has(t, "W"))
        nQ    == CountWhere(f, LAMBDA t : t \in {TQuiet1, TQuiet2})
    IN /\ Len(argv) >= 1 /\ IsName(argv[1])
       /\ nTag <= 1 /\ nChk <= 1 /\ nAll <= 1 /\ nQ <= 1
       /\ \A i \in 1..Len(f) : \A c \in TddaShortChars :
              IsShortFlags(f[i]) => Cardinality({k \in 1..Len(f[i]) : f[i][k] = c}) <= 1
       /\ \A i, j \in 1..Len(f) : (i < j /\ IsShortFlags(f[j]) /\ \E c \in TddaShortChars : Has(f[j], c))
                                     => IsShortFlags(f[i])
       /\ \A i, j \in 1..Len(f) : (i < j /\ IsName(f[i])) => IsName(f[j])
       /\ \A i, j \in 1..Len(f) : (i < j /\ IsName(f[i])) => f[i] # f[j]   \* a class named twice runs twice
       /\ (WritePos(a) <= Len(a)) =>
             /\ Len(b) >= 1
             /\ \A i \in 1..Len(b) : IsName(b[i])
             /\ ~(nAll > 0)                   \* --write-all together with --write: not demanded
             /\ \A i \in 1..Len(f) : ~IsName(f[i])   \* class names before --write would be eaten

SpecFlags(argv) ==
    LET a == Args(argv) IN
    [argv   |-> <<argv[1]>> \o Clean(Front(a)),
     regen  |-> WantsAll(a),
     tagged |-> WantsTagged(a),
     check  |-> WantsCheck(a),
     quiet  |-> WantsQuiet(a),
     kinds  |-> KindsOf(Back(a)),
     raised |-> FALSE]

\* comparison of what matters: argv from index 1 on (what unittest parses), flags, regeneration
SameFlags(x, y) ==
    /\ x.raised = y.raised
    /\ (~x.raised => /\ Len(x.argv) >= 1 /\ Len(y.argv) >= 1 /\ Tail(x.argv) = Tail(y.argv)
                     /\ x.regen = y.regen /\ x.check = y.check
                     /\ (x.check \/ x.tagged = y.tagged)   \* under listing the tagged flag has no observable effect
                     /\ x.quiet = y.quiet /\ x.kinds = y.kinds)

----------------------------------------------------------------------------
(* Test selection (C19).  A module is a function from class names to          *)
(* [ctag : BOOLEAN, tests : set of [name, mtag]] (inherited tests included     *)
(* by the harness when it builds a module with an inheritance edge).           *)

TestsOf(M, c) == {<<c, t.name>> : t \in M[c].tests}
TaggedTestsOf(M, c) == IF M[c].ctag THEN TestsOf(M, c)
                       ELSE {<<c, t.name>> : t \in {u \in M[c].tests : u.mtag}}

\* names: set of class names given on the command line ({} = whole module)
PlainSelection(M, names) ==
    UNION {TestsOf(M, c) : c \in (IF names = {} THEN DOMAIN M ELSE names \cap DOMAIN M)}

SpecExecuted(M, names, tagged, check) ==
    IF check THEN {}
    ELSE IF tagged
         THEN PlainSelection(M, names) \cap UNION {TaggedTestsOf(M, c) : c \in DOMAIN M}
         ELSE PlainSelection(M, names)

SpecListed(M, names, check) ==
    IF ~check THEN {}
    ELSE {c \in (IF names = {} THEN DOMAIN M ELSE names \cap DOMAIN M) : TaggedTestsOf(M, c) # {}}

\* transcription of TaggedTestLoader: getTestCaseNames filters per class, then (check) the
\* remaining tests are listed by class instead of being added to the suite
ImplNamesOf(M, c) == IF M[c].ctag THEN {t.name : t \in M[c].tests}
                     ELSE {t.name : t \in {u \in M[c].tests : u.mtag}}
ImplLoaded(M, names, useLoader) ==
    LET cs == IF names = {} THEN DOMAIN M ELSE names \cap DOMAIN M IN
    IF useLoader THEN UNION {{<<c, n>> : n \in ImplNamesOf(M, c)} : c \in cs}
    ELSE UNION {TestsOf(M, c) : c \in cs}
ImplExecuted(M, names, tagged, check) ==
    IF check THEN {} ELSE ImplLoaded(M, names, tagged \/ check)
ImplListed(M, names, check) ==
    IF ~check THEN {} ELSE {tc[1] : tc \in ImplLoaded(M, names, TRUE)}

=============================================================================
