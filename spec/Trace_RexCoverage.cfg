CONSTANTS
  MaxP = 1
  MaxE = 1
  FreqVals = {1}
INIT TraceInit
NEXT TraceNext
INVARIANT Judge
POSTCONDITION AllConsumed
CHECK_DEADLOCK FALSE
