CONSTANTS
  Defects = {}
  MaxArgs = 3
  EmitRows = TRUE
INIT Init
NEXT Next
INVARIANT ImplIsSpec
INVARIANT KeepsSomething
INVARIANT EmitCase
CHECK_DEADLOCK FALSE
