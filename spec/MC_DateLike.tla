------------------------------ MODULE MC_DateLike ------------------------------
EXTENDS DateLike, Json
CONSTANTS EmitRows
VARIABLES n1, n2, n3
Nums == {0, 1, 2, 4, 11, 12, 13, 28, 29, 30, 31, 32, 99, 1900, 1999, 2020, 2024, 9999, 10000}
Init == n1 \in Nums /\ n2 \in Nums /\ n3 \in Nums
Next == UNCHANGED <<n1, n2, n3>>
NeverRaises == ImplNumeric(n1, n2, n3) # "raises" /\ (n2 \in 1..12 => ImplNamed(n1, n2, n3) # "raises")
\* the decision agrees with the calendar (the order of readings can only matter between two valid dates)
NumericIsSpec == ImplNumeric(n1, n2, n3) = SpecNumeric(n1, n2, n3)
NamedIsSpec == n2 \in 1..12 => ImplNamed(n1, n2, n3) = SpecNamed(n1, n2, n3)
EmitCase == EmitRows => PrintT(ToJson([n |-> <<n1, n2, n3>>, numeric |-> SpecNumeric(n1, n2, n3),
                                       named |-> IF n2 \in 1..12 THEN SpecNamed(n1, n2, n3) ELSE "n/a"]))
=============================================================================
