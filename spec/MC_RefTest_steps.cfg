CONSTANTS
  Kinds <- MCKinds
  Paths <- MCPaths
  Contents <- MCContents
  Types <- MCTypes
  Arity <- MCArity
  EmitRows = TRUE
INIT StepInit
NEXT MCNext
CONSTRAINT OneStep
INVARIANT TypeOK
INVARIANT RegenWritesActual
INVARIANT RegenThenPass
INVARIANT EmitCase
PROPERTY OnlyOnRequest
PROPERTY NormalModeFrame
PROPERTY ExactlySelected
PROPERTY SetRegenerationFrame
CHECK_DEADLOCK FALSE
