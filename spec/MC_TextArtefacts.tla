-------------------------- MODULE MC_TextArtefacts --------------------------
(* C15 instances: the reconstruction on every failing pair (fewer options,    *)
(* rows carry the expected differing line pairs), and the binary offset on    *)
(* every pair of byte strings of <= MaxBytes over {0, 1, 255}.                *)
EXTENDS TextCompare, Json
CONSTANTS MaxLines, MaxBytes, EmitRows
VARIABLES A, E, mode, ba, be

Pool == { <<"a">>, <<" ", "a">>, <<"a", "1">>, <<"a", "2">>, <<"R", "a">>, <<"I", "a">> }
Bytes == {0, 1, 255}
OptsC15 == [ls : BOOLEAN, rs : {FALSE}, isub : BOOLEAN, rem : BOOLEAN, pats : {<<>>, <<1>>}, mpc : {0}]

Init == A = <<>> /\ E = <<>> /\ ba = <<>> /\ be = <<>> /\ mode \in {"text", "bin"}
Next == \/ /\ mode = "text" /\ UNCHANGED <<mode, ba, be>>
           /\ \/ (E = <<>> /\ Len(A) < MaxLines /\ \E l \in Pool : A' = Append(A, l) /\ UNCHANGED E)
              \/ (Len(E) < MaxLines /\ Len(A) + Len(E) < 2 * MaxLines - 1 /\ \E l \in Pool : E' = Append(E, l) /\ UNCHANGED A)
        \/ /\ mode = "bin" /\ UNCHANGED <<mode, A, E>>
           /\ \/ (be = <<>> /\ Len(ba) < MaxBytes /\ \E b \in Bytes : ba' = Append(ba, b) /\ UNCHANGED be)
              \/ (Len(be) < MaxBytes /\ \E b \in Bytes : be' = Append(be, b) /\ UNCHANGED ba)

RebuildHolds == mode = "text" => \A o \in OptsC15 : RebuildOK(A, E, o)
BinaryOffsetExact == mode = "bin" => BinImpl(ba, be) = BinSpec(ba, be)
\* a common prefix shifts the report (what licenses the harness to replay every row behind k identical bytes, k in the thousands)
Pad(k) == [i \in 1..k |-> 7]
BinaryShift == mode = "bin" => \A k \in 0..3 :
    BinSpec(Pad(k) \o ba, Pad(k) \o be) = [offset |-> BinSpec(ba, be).offset + k, alen |-> Len(ba) + k, elen |-> Len(be) + k]

OptRow(o) == [o |-> o, pass |-> SpecPass(A, E, o), dem |-> Demanded(A, E, o), rdem |-> RebuildDemanded(A, E, o),
              diffs |-> IF RebuildDemanded(A, E, o) THEN SpecDiffPairs(A, E, o) ELSE <<>>,
              effect |-> ExclusionsHadEffect(A, E, o),
              removes |-> o.rem /\ ((\E i \in 1..Len(A) : Has(A[i], "R")) \/ (\E j \in 1..Len(E) : Has(E[j], "R")))]
EmitCase == EmitRows =>
    IF mode = "text"
    THEN LET Wanted(x) == Demanded(A, E, x) /\ (RebuildDemanded(A, E, x) \/ Len(A) + Len(E) <= 3) IN
         (\E o \in OptsC15 : Wanted(o)) =>
            PrintT(ToJson([mode |-> mode, A |-> A, E |-> E, res |-> {OptRow(o) : o \in {x \in OptsC15 : Wanted(x)}}]))
    ELSE PrintT(ToJson([mode |-> mode, a |-> ba, e |-> be, bin |-> BinSpec(ba, be)]))
=============================================================================
