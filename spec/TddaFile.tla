------------------------------- MODULE TddaFile -------------------------------
(***************************************************************************)
(* .tdda round trip (C09): loading a field's constraint dictionary into      *)
(* constraint objects and writing it out again, on value CLASSES.            *)
(*                                                                         *)
(* A field dictionary is a sequence of [k, v] (JSON key order matters to    *)
(* the loader, so it is kept).  JSON value classes:                          *)
(*   "int" "real" "string" "bool" "null" "list"                              *)
(*   "date_d"  'YYYY-MM-DD'             "date_s0" 'YYYY-MM-DD 00:00:00'       *)
(*   "date_s"  with a non-midnight time "date_f6" with 6 fraction digits     *)
(*   "pd_num" / "pd_date" / "pd_null": {"value": ..., "precision": ...}      *)
(*   "t_date" / "t_other" / "t_list": values of a type constraint            *)
(* Object value classes: the same, except that date strings of a date field  *)
(* become "dt_mid" / "dt_sec" / "dt_frac" (datetime objects).               *)
(***************************************************************************)
EXTENDS Naturals, Sequences, FiniteSets, TLC

Known    == {"type", "min", "max", "sign", "max_nulls", "rex"}
Preferred == <<"type", "min", "max", "sign", "max_nulls", "rex">>
DateValued == {"min", "max"}
IsComment(k) == k = "#c"

HasKey(fd, k) == \E i \in 1..Len(fd) : fd[i].k = k
ValOf(fd, k)  == fd[CHOOSE i \in 1..Len(fd) : fd[i].k = k].v
IsDateField(fd) == HasKey(fd, "type") /\ ValOf(fd, "type") = "t_date"

\* get_date on a JSON string class
ParseDate(v) == CASE v \in {"date_d", "date_s0"} -> "dt_mid"
                  [] v = "date_s" -> "dt_sec"
                  [] v = "date_f6" -> "dt_frac"
                  [] OTHER -> v
\* str(datetime)
RenderDate(v) == CASE v = "dt_mid" -> "date_s0" [] v = "dt_sec" -> "date_s" [] v = "dt_frac" -> "date_f6" [] OTHER -> v

\* transcription of DatasetConstraints.initialize_from_dict for one field
LoadVal(k, v, isdate) ==
    IF isdate /\ k \in DateValued
    THEN (CASE v = "pd_date" -> "pdo_date"      \* constructor(**value), then value parsed: a datetime inside
            [] v \in {"pd_num", "pd_null"} -> v
            [] OTHER -> ParseDate(v))
    ELSE v
RECURSIVE LoadSeq(_, _)
LoadSeq(fd, isdate) ==
    IF fd = <<>> THEN <<>>
    ELSE IF Head(fd).k \in Known
         THEN <<[k |-> Head(fd).k, v |-> LoadVal(Head(fd).k, Head(fd).v, isdate)]>> \o LoadSeq(Tail(fd), isdate)
         ELSE LoadSeq(Tail(fd), isdate)         \* unknown kinds warn, '#' keys are silent; both are skipped
ImplLoad(fd) == LoadSeq(fd, IsDateField(fd))
ObjSet(o) == {o[i] : i \in 1..Len(o)}

\* transcription of FieldConstraints.to_dict_value: preferred key order, dates through str()
DumpVal(v) == IF v = "pdo_date" THEN "pd_date" ELSE RenderDate(v)
ImplDump(o) ==
    LET present == SelectSeq(Preferred, LAMBDA k : \E i \in 1..Len(o) : o[i].k = k)
    IN [j \in 1..Len(present) |->
          [k |-> present[j], v |-> DumpVal(o[CHOOSE i \in 1..Len(o) : o[i].k = present[j]].v)]]

----------------------------------------------------------------------------
(* C09 *)
\* after the first load, write/load cycles reproduce the same text and the same objects
Fixpoint(fd) ==
    LET o1 == ImplLoad(fd)  t1 == ImplDump(o1)
        o2 == ImplLoad(t1)  t2 == ImplDump(o2)
        o3 == ImplLoad(t2)  t3 == ImplDump(o3)
    IN t2 = t1 /\ t3 = t1 /\ ObjSet(o2) = ObjSet(o1) /\ ObjSet(o3) = ObjSet(o1)

\* unknown kinds and #-keys do not affect the other constraints
Strip(fd) == SelectSeq(fd, LAMBDA e : e.k \in Known)
UnknownNeutral(fd) == ObjSet(ImplLoad(fd)) = ObjSet(ImplLoad(Strip(fd)))

\* the meaning of a dictionary does not depend on the order of its keys
Perms(fd) == {p \in [1..Len(fd) -> 1..Len(fd)] : \A i, j \in 1..Len(fd) : p[i] = p[j] => i = j}
OrderFree(fd) == \A p \in Perms(fd) :
                    ObjSet(ImplLoad([i \in 1..Len(fd) |-> fd[p[i]]])) = ObjSet(ImplLoad(fd))
=============================================================================
