CONSTANTS
  ParamSpace = {}
  Defects = {"LoopExitWithoutReextract"}
INIT TraceInit
NEXT TraceNext
INVARIANT TypeOK
INVARIANT ProgressPrint
CHECK_DEADLOCK FALSE
