----------------------------- MODULE RexCoverage -----------------------------
(***************************************************************************)
(* rexpy's coverage figures (C18): rex_coverage and the greedy incremental  *)
(* coverage loop of matrices2incremental_coverage, as a small machine.      *)
(*                                                                         *)
(*   NP patterns (already in the sorted order the code works in),           *)
(*   NE distinct examples, Mx[p][e] = pattern p matches example e,          *)
(*   freq[e] >= 1, dedup = sort on distinct examples.                        *)
(*   alive   examples whose row has not been zeroed yet                     *)
(*   results sequence of [p, n, nuniq, incr, incruniq]                      *)
(***************************************************************************)
EXTENDS Naturals, Sequences, FiniteSets, TLC

CONSTANTS MaxP, MaxE, FreqVals       \* sizes of the exhaustive instance (CInit only)
VARIABLES Mx, freq, dedup, alive, results, pc
cvars == <<Mx, freq, dedup, alive, results, pc>>

P == DOMAIN Mx
Ex == DOMAIN freq
NP == Cardinality(P)
RECURSIVE SumOver(_, _)
SumOver(S, f) == IF S = {} THEN 0 ELSE LET x == CHOOSE y \in S : TRUE IN f[x] + SumOver(S \ {x}, f)
Weight(S) == SumOver(S, freq)
Matched(p) == {e \in Ex : Mx[p][e]}
InResults(p) == \E i \in 1..Len(results) : results[i].p = p

CInit == /\ Mx \in [1..MaxP -> [1..MaxE -> BOOLEAN]]
         /\ freq \in [1..MaxE -> FreqVals]
         /\ dedup \in BOOLEAN
         /\ alive = Ex /\ results = <<>> /\ pc = "loop"

Total(p)  == Weight(Matched(p) \cap alive)
UTotal(p) == Cardinality(Matched(p) \cap alive)
Key(p)    == IF dedup THEN UTotal(p) ELSE Total(p)
MaxKey    == CHOOSE m \in {Key(p) : p \in P} : \A q \in P : Key(q) <= m

\* one iteration of the while loop: the first pattern whose total is the maximum
Pick ==
    /\ pc = "loop" /\ Len(results) < NP /\ MaxKey > 0
    /\ LET p == CHOOSE q \in P : Key(q) = MaxKey /\ \A r \in P : (r < q => Key(r) < MaxKey) IN
       /\ results' = Append(results, [p |-> p, n |-> Weight(Matched(p)), nuniq |-> Cardinality(Matched(p)),
                                      incr |-> Total(p), incruniq |-> UTotal(p)])
       /\ alive' = alive \ Matched(p)
    /\ UNCHANGED <<Mx, freq, dedup, pc>>
\* nothing left to explain (or every pattern listed): the loop ends; patterns that explain nothing new
\* are not listed
Finish ==
    /\ pc = "loop" /\ (Len(results) = NP \/ MaxKey = 0)
    /\ pc' = "done"
    /\ UNCHANGED <<Mx, freq, dedup, alive, results>>
CNext == Pick \/ Finish
CSpec == CInit /\ [][CNext]_cvars /\ WF_cvars(CNext)

----------------------------------------------------------------------------
(* C18, stated on a finished result sequence R (also used to judge the real code's output) *)
RECURSIVE SumSeq(_, _)
SumSeq(R, field) == IF R = <<>> THEN 0 ELSE
    (IF field = "incr" THEN Head(R).incr ELSE Head(R).incruniq) + SumSeq(Tail(R), field)

Covered == UNION {Matched(p) : p \in P}
Earlier(R, i) == UNION {Matched(R[j].p) : j \in 1..(i - 1)}
CoverageExact(R)   == \A i \in 1..Len(R) : R[i].n = Weight(Matched(R[i].p)) /\ R[i].nuniq = Cardinality(Matched(R[i].p))
\* each example is credited to exactly one expression: the first one in the list that matches it
CreditedOnce(R)    == \A i \in 1..Len(R) :
                         /\ R[i].incr = Weight(Matched(R[i].p) \ Earlier(R, i))
                         /\ R[i].incruniq = Cardinality(Matched(R[i].p) \ Earlier(R, i))
NonIncreasing(R)   == \A i \in 1..(Len(R) - 1) :
                         IF dedup THEN R[i].incruniq >= R[i + 1].incruniq ELSE R[i].incr >= R[i + 1].incr
SumsToCovered(R)   == SumSeq(R, "incr") = Weight(Covered) /\ SumSeq(R, "incruniq") = Cardinality(Covered)
\* an expression is listed at most once, and one that is not listed explains nothing new
ListedOnce(R) == \A i, j \in 1..Len(R) : R[i].p = R[j].p => i = j
OmittedExplainNothingNew(R) == \A p \in P \ {R[i].p : i \in 1..Len(R)} : Matched(p) \subseteq Earlier(R, Len(R) + 1)

Post == pc = "done" => /\ CoverageExact(results) /\ CreditedOnce(results) /\ NonIncreasing(results)
                       /\ SumsToCovered(results) /\ ListedOnce(results) /\ OmittedExplainNothingNew(results)
Terminates == <>(pc = "done")
=============================================================================
