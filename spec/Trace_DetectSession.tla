-------------------------- MODULE Trace_DetectSession --------------------------
(* Recorded detection sessions (several runs on the same output path, stale   *)
(* files planted in between).  Each "Detect" line carries what the real       *)
(* detect_df produced: per-constraint flags of the failed constraints,        *)
(* n_failures per record, record counts, which records were output (frame and *)
(* file), whether the file exists afterwards, whether the input frame changed.*)
EXTENDS DetectSession, Json, IOUtils, TLCExt

Tr == ndJsonDeserialize(IOEnv.TRACE_FILE)
VARIABLE l
ToSet(s) == {s[i] : i \in 1..Len(s)}

TraceInit == \E i \in {j \in 1..Len(Tr) : Tr[j].ev = "Init"} :
                /\ l = i + 1
                /\ outfile = Tr[i].outfile
                /\ input = "intact"
                /\ last = [act |-> "none"]
Step(e) == CASE e.ev = "Stale" -> StaleFileAppears
             [] e.ev = "Detect" -> DetectRun(e.anyfailed, e.withpath, e.inplace)
TraceNext == /\ l <= Len(Tr) /\ Tr[l].ev # "Init" /\ Step(Tr[l]) /\ l' = l + 1

Bad == IF l = 1 \/ Tr[l-1].ev # "Detect" THEN {}
       ELSE LET e == Tr[l-1]
                n == e.nrows
                exists == (outfile = "fresh" \/ outfile = "stale") IN
            (IF e.anyfailed /\ e.nfail # NFailSeq(e.flags, n) THEN {"NFailIsCount"} ELSE {})
            \cup (IF e.anyfailed /\ (e.nfailrec # Cardinality(Failing(e.flags, n)) \/ e.npass + e.nfailrec # n)
                  THEN {"Partition"} ELSE {})
            \cup (IF e.anyfailed /\ ToSet(e.outrows) # OutRows(e.flags, n, e.writeall) THEN {"OutputIsFailingRecords"} ELSE {})
            \cup (IF ~e.anyfailed /\ e.hasdetection THEN {"NoDetectionWithoutFailure"} ELSE {})
            \cup (IF e.withpath /\ e.fileexists # (outfile = "fresh") THEN {"OutfileIffFailure"} ELSE {})
            \cup (IF e.withpath /\ e.anyfailed /\ e.fileexists /\ ToSet(e.filerows) # OutRows(e.flags, n, e.writeall)
                  THEN {"FileHoldsFailingRecords"} ELSE {})
            \cup (IF e.inputchanged # (input = "extended") THEN {"InputUnchanged"} ELSE {})
            \cup (IF e.raised = "none" THEN {} ELSE {"NoError"})
            \* measured on the outputs themselves (returned frame, in-place columns): count = number of false flags
            \cup (IF e.rowcounts_ok THEN {} ELSE {"OutputCountsAreFalseFlags"})
Conforms == Bad = {} \/ PrintT(ToJson([line |-> l - 1, tid |-> Tr[l-1].tid, bad |-> Bad]))
Consumed == PrintT(ToJson([consumed |-> TLCGet("distinct"), lines |-> Len(Tr)]))
=============================================================================
