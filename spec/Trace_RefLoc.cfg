CONSTANTS
  Insts = {"i1", "i2", "i3"}
  Kinds = {"k1", "k2"}
  Dirs = {"dA", "dB", "dC"}
  Names = {"n1", "n2"}
  Contents = {"c1", "c2", "c3"}
INIT TraceInit
NEXT TraceNext
INVARIANT Conforms
POSTCONDITION Consumed
CHECK_DEADLOCK FALSE
