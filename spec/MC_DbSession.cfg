CONSTANTS
  StrLen <- MCStrLen
  RexMatch <- MCRexMatch
  Defects = {}
  MaxCells = 3
  EmitRows = TRUE
  ColTypes = {"real", "int", "bool", "date", "string"}
INIT Init
NEXT Next
INVARIANT ClosureHolds
INVARIANT NoticesHolds
INVARIANT EmitCase
CHECK_DEADLOCK FALSE
