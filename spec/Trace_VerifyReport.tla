-------------------------- MODULE Trace_VerifyReport --------------------------
(* One line per real verify_df call (or pair of calls).  The verdict map is read from the result      *)
(* object; the line also carries what the object says elsewhere (totals, per-field counts, the frame  *)
(* form, the printed report parsed back).  Judged with the operators of VerifyReport.                 *)
EXTENDS VerifyReport, TLC, Json, IOUtils, TLCExt
Tr == ndJsonDeserialize(IOEnv.TRACE_FILE)
VARIABLE l
Init == l = 1
Next == l <= Len(Tr) /\ l' = l + 1
Names(s) == {s[i] : i \in 1..Len(s)}
ReportBad(e) ==
    LET v == e.verdicts IN
       (IF e.passes = Passes(v) /\ e.failures = Failures(v) THEN {} ELSE {"TotalsAreVerdictCounts"})
  \cup (IF \A f \in DOMAIN v : e.fieldpasses[f] = Count(v[f], "T") /\ e.fieldfailures[f] = Count(v[f], "F")
        THEN {} ELSE {"PerFieldCountsAreVerdictCounts"})
  \cup (IF e.frameok THEN {} ELSE {"TabularFormIsVerdicts"})
  \cup (IF Names(e.listed) = Listed(v, e.mode) /\ Len(e.listed) = Cardinality(Names(e.listed)) THEN {} ELSE {"ReportListsFieldsOfMode"})
  \cup (IF \A i \in 1..Len(e.lines) :
              LET ln == e.lines[i] IN
              /\ ln.field \in DOMAIN v
              /\ ln.failures = Count(v[ln.field], "F") /\ ln.passes = Count(v[ln.field], "T")
              /\ DOMAIN ln.marks = DOMAIN v[ln.field]
              /\ \A k \in DOMAIN ln.marks : ln.marks[k] = v[ln.field][k]
        THEN {} ELSE {"ReportLinesAreVerdicts"})
  \cup (IF e.sumpass = Passes(v) /\ e.sumfail = Failures(v) THEN {} ELSE {"ReportSummaryIsTotals"})
Bad(e) == CASE e.ev = "Report" -> ReportBad(e)
            [] e.ev = "Mode" -> IF e.a = e.b THEN {} ELSE {"VerdictsIndependentOfReportMode"}
            [] e.ev = "Null" -> (IF NullNeutral(e.base, e.withnull, e.added) THEN {} ELSE {"NullValuedConstraintChangesNothing"})
Judge == l <= Len(Tr) => LET b == Bad(Tr[l]) IN b = {} \/ PrintT(ToJson([line |-> l, tid |-> Tr[l].tid, bad |-> b]))
AllConsumed == PrintT(ToJson([consumed |-> TLCGet("stats").diameter - 1, lines |-> Len(Tr)]))
=============================================================================
