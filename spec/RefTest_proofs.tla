--------------------------- MODULE RefTest_proofs ---------------------------
(***************************************************************************)
(* TLAPS proofs, for arbitrary constants (any number of kinds, files,      *)
(* contents and assertion types), of the C10 properties that TLC checks on *)
(* small instances of RefTest (MC_RefTest.cfg).  Checked by                *)
(*     tlapm --cleanfp spec/RefTest_proofs.tla                             *)
(* from checks/c10.py (thorough tier).                                      *)
(***************************************************************************)
EXTENDS RefTest, TLAPS

NMF == (last'.act = "Assert" /\ ~ShouldRegen(regen, last'.kind)) => (refs' = refs /\ last'.wrote = {})
OOR == \A p \in Paths : Touched(p) =>
          /\ last'.act = "Assert"
          /\ \E i \in 1..Len(last'.paths) : last'.paths[i] = p
          /\ ShouldRegen(regen, last'.kind)
EXS == (last'.act = "Assert") => ((last'.outcome = "regenerated") <=> ShouldRegen(regen, last'.kind))
SRF == last'.act = "SetRegeneration" => refs' = refs

LEMMA OutcomeNotRegenerated ==
    ASSUME NEW ps, NEW as, NEW rf
    PROVE  Outcome(ps, as, rf) # "regenerated"
  BY DEF Outcome

LEMMA StepSet ==
    ASSUME NEW k \in KindKeys, NEW f \in BOOLEAN, SetRegeneration(k, f)
    PROVE  NMF /\ OOR /\ EXS /\ SRF
  BY DEF SetRegeneration, NMF, OOR, EXS, SRF, Touched

LEMMA StepAssert ==
    ASSUME NEW ty \in Types, NEW k \in KindKeys, NEW ps \in PathSeqs(ty),
           NEW as \in [1..Len(ps) -> Contents], AssertRef(ty, k, ps, as)
    PROVE  NMF /\ OOR /\ EXS /\ SRF
<1>1. CASE ShouldRegen(regen, k)
  <2>1. /\ last'.act = "Assert" /\ last'.kind = k /\ last'.paths = ps /\ last'.outcome = "regenerated"
        /\ last'.wrote = {ps[i] : i \in 1..Len(ps)}
        /\ \A p \in Paths : refs'[p] # refs[p] => \E i \in 1..Len(ps) : ps[i] = p
    BY <1>1 DEF AssertRef
  <2>2. QED BY <2>1, <1>1 DEF NMF, OOR, EXS, SRF, Touched
<1>2. CASE ~ShouldRegen(regen, k)
  <2>1. /\ last'.act = "Assert" /\ last'.kind = k /\ last'.outcome = Outcome(ps, as, refs)
        /\ last'.wrote = {} /\ refs' = refs
    BY <1>2 DEF AssertRef
  <2>2. QED BY <2>1, <1>2, OutcomeNotRegenerated DEF NMF, OOR, EXS, SRF, Touched
<1>3. QED BY <1>1, <1>2

LEMMA StepAll == Next => NMF /\ OOR /\ EXS /\ SRF
  BY StepSet, StepAssert DEF Next

THEOREM SpecNormalModeFrame == Spec => NormalModeFrame
<1>1. [Next]_vars => [NMF]_vars  BY StepAll
<1>2. QED BY <1>1, PTL DEF Spec, NormalModeFrame, NMF

THEOREM SpecOnlyOnRequest == Spec => OnlyOnRequest
<1>1. [Next]_vars => [OOR]_vars  BY StepAll
<1>2. QED BY <1>1, PTL DEF Spec, OnlyOnRequest, OOR

THEOREM SpecExactlySelected == Spec => ExactlySelected
<1>1. [Next]_vars => [EXS]_vars  BY StepAll
<1>2. QED BY <1>1, PTL DEF Spec, ExactlySelected, EXS

THEOREM SpecSetRegenerationFrame == Spec => SetRegenerationFrame
<1>1. [Next]_vars => [SRF]_vars  BY StepAll
<1>2. QED BY <1>1, PTL DEF Spec, SetRegenerationFrame, SRF

(* state invariants *)
ASSUME AbsentIsNoContent == Absent \notin Contents

LEMMA PathSeqsInjective ==
    ASSUME NEW ty \in Types, NEW ps \in PathSeqs(ty)
    PROVE  /\ \A i \in 1..Len(ps) : ps[i] \in Paths
           /\ \A i, j \in 1..Len(ps) : ps[i] = ps[j] => i = j
<1>1. CASE Arity[ty] = 2
  <2>1. PICK p \in Paths, q \in Paths : ps = <<p, q>> /\ p # q
    BY <1>1 DEF PathSeqs
  <2>2. Len(ps) = 2 /\ ps[1] = p /\ ps[2] = q
    BY <2>1
  <2>3. QED BY <2>1, <2>2
<1>2. CASE Arity[ty] # 2
  <2>1. PICK p \in Paths : ps = <<p>>
    BY <1>2 DEF PathSeqs
  <2>2. Len(ps) = 1 /\ ps[1] = p
    BY <2>1
  <2>3. QED BY <2>2
<1>3. QED BY <1>1, <1>2

LastOK == last.act = "Assert" => last.actual \in [1..Len(last.paths) -> Contents]
Inv == RegenWritesActual /\ LastOK

THEOREM SpecInv == Spec => []Inv
<1>1. Init => Inv
  BY DEF Init, Inv, RegenWritesActual, LastOK, None
<1>2. Inv /\ [Next]_vars => Inv'
  <2> SUFFICES ASSUME Inv, [Next]_vars PROVE Inv'
    OBVIOUS
  <2>1. CASE UNCHANGED vars
    BY <2>1 DEF vars, Inv, RegenWritesActual, LastOK
  <2>2. ASSUME NEW k \in KindKeys, NEW f \in BOOLEAN, SetRegeneration(k, f)
        PROVE  Inv'
    BY <2>2 DEF SetRegeneration, Inv, RegenWritesActual, LastOK
  <2>3. ASSUME NEW ty \in Types, NEW k \in KindKeys, NEW ps \in PathSeqs(ty),
               NEW as \in [1..Len(ps) -> Contents], AssertRef(ty, k, ps, as)
        PROVE  Inv'
    <3>1. CASE ShouldRegen(regen, k)
      <4>1. /\ last'.act = "Assert" /\ last'.paths = ps /\ last'.actual = as
            /\ refs' = [p \in Paths |-> IF \E i \in 1..Len(ps) : ps[i] = p
                                        THEN as[CHOOSE i \in 1..Len(ps) : ps[i] = p]
                                        ELSE refs[p]]
        BY <2>3, <3>1 DEF AssertRef
      <4>2. ASSUME NEW i \in 1..Len(ps) PROVE refs'[ps[i]] = as[i]
        <5>1. ps[i] \in Paths /\ \A j \in 1..Len(ps) : ps[j] = ps[i] => j = i
          BY PathSeqsInjective
        <5>2. (CHOOSE j \in 1..Len(ps) : ps[j] = ps[i]) = i
          BY <5>1
        <5>3. QED BY <4>1, <5>1, <5>2
      <4>3. QED BY <4>1, <4>2 DEF Inv, RegenWritesActual, LastOK
    <3>2. CASE ~ShouldRegen(regen, k)
      <4>1. last'.act = "Assert" /\ last'.paths = ps /\ last'.actual = as /\ last'.outcome = Outcome(ps, as, refs)
        BY <2>3, <3>2 DEF AssertRef
      <4>2. QED BY <4>1, OutcomeNotRegenerated DEF Inv, RegenWritesActual, LastOK
    <3>3. QED BY <3>1, <3>2
  <2>4. QED BY <2>1, <2>2, <2>3 DEF Next
<1>3. QED BY <1>1, <1>2, PTL DEF Spec

(* after a regenerating assertion the same assertion passes *)
LEMMA InvImpliesRegenThenPass == Inv => RegenThenPass
<1> SUFFICES ASSUME Inv, last.act = "Assert", last.outcome = "regenerated"
             PROVE  Outcome(last.paths, last.actual, refs) = "pass"
  BY DEF RegenThenPass
<1>1. \A i \in 1..Len(last.paths) : refs[last.paths[i]] = last.actual[i] /\ last.actual[i] \in Contents
  BY DEF Inv, RegenWritesActual, LastOK
<1>2. \A i \in 1..Len(last.paths) : refs[last.paths[i]] # Absent
  BY <1>1, AbsentIsNoContent
<1>3. QED BY <1>1, <1>2 DEF Outcome

THEOREM SpecRegenThenPass == Spec => []RegenThenPass
  BY SpecInv, InvImpliesRegenThenPass, PTL
=============================================================================
