CONSTANTS
  Defects = {"SiblingLoadedFromDataPath", "MetadataFileHasNoDataPath"}
  EmitRows = FALSE
INIT Init
NEXT Next
INVARIANT ImplIsSpecInv
CHECK_DEADLOCK FALSE
