--------------------------- MODULE MC_TextCompare ---------------------------
(* Exhaustive instance: every pair of texts of <= MaxLines lines over Pool,   *)
(* every option combination.  One state per pair (A is built first, then E).  *)
EXTENDS TextCompare, Json
CONSTANTS MaxLines, EmitRows, PoolName
VARIABLES A, E

Pool12 == { <<"a">>, <<"b">>, <<"a", "1">>, <<"a", "1", "2">>, <<"b", "2">>, <<"1", "a", "2">>,
            <<" ", "a">>, <<"a", " ">>, <<"R", "a">>, <<"I", "a">>, <<" ">>, <<>> }
Pool7  == { <<"a">>, <<"b">>, <<"a", "1">>, <<"a", "1", "2">>, <<" ", "a">>, <<"R">>, <<"I", "a">> }
Pool3  == { <<"a">>, <<"b">>, <<"a", "1">> }
Pool == IF PoolName = "p12" THEN Pool12 ELSE IF PoolName = "p7" THEN Pool7 ELSE Pool3

\* pattern lists: none, [P1], [P1, P2], [P2, P1]
PatLists == << <<>>, <<1>>, <<1, 2>>, <<2, 1>> >>
NOpts == 2 * 2 * 2 * 2 * 4 * 4
\* options in a fixed order so that a row carries its results as bit sequences
OptOf(n) == [ls |-> (n % 2) = 1, rs |-> ((n \div 2) % 2) = 1, isub |-> ((n \div 4) % 2) = 1,
             rem |-> ((n \div 8) % 2) = 1, pats |-> PatLists[((n \div 16) % 4) + 1], mpc |-> n \div 64]
Opts == {OptOf(n) : n \in 0..(NOpts - 1)}

Init == A = <<>> /\ E = <<>>
Next == \/ (E = <<>> /\ Len(A) < MaxLines /\ \E l \in Pool : A' = Append(A, l) /\ UNCHANGED E)
        \/ (Len(E) < MaxLines /\ \E l \in Pool : E' = Append(E, l) /\ UNCHANGED A)

ImplIsSpec == \A o \in Opts : Demanded(A, E, o) => (ImplPass(A, E, o) = SpecPass(A, E, o))
UnexcusedIsSpec == \A o \in Opts : Demanded(A, E, o) => (ImplUnexcused(A, E, o) = SpecUnexcused(A, E, o))
IdenticalAlwaysPasses == \A o \in Opts : SpecPass(A, A, o) /\ ImplPass(A, A, o)
\* any difference not excused by an option fails
UnexcusedFails == \A o \in Opts :
    (o.mpc = 0 /\ SpecUnexcused(A, E, o) # {}) => ~SpecPass(A, E, o)

RebuildHolds == \A o \in Opts : RebuildOK(A, E, o)
Bit(b) == IF b THEN 1 ELSE 0
EmitCase == EmitRows =>
    PrintT(ToJson([A |-> A, E |-> E,
                   spec |-> [n \in 1..NOpts |-> Bit(SpecPass(A, E, OptOf(n - 1)))],
                   impl |-> [n \in 1..NOpts |-> Bit(ImplPass(A, E, OptOf(n - 1)))],
                   dem  |-> [n \in 1..NOpts |-> Bit(Demanded(A, E, OptOf(n - 1)))]]))
=============================================================================
