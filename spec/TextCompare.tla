----------------------------- MODULE TextCompare -----------------------------
(***************************************************************************)
(* Text comparison of reference tests (C04) and its failure artefacts       *)
(* (C15).  A text is a sequence of lines; a line is a sequence of tokens:   *)
(*    letters "a" "b", digits "1" "2", blank " ", "R" (the remove-lines     *)
(*    substring), "I" (the ignore-substring).  Two ignore-patterns:         *)
(*    P1 = \d+ (a run of digit tokens), P2 = [ab]\d+ (a letter and a run). *)
(* Options o = [ls, rs, isub, rem : BOOLEAN, pats : sequence of pattern     *)
(*    ids (in the order given to ignore_patterns), mpc : Nat].              *)
(*                                                                         *)
(*   SpecPass  the property's own words                                     *)
(*   ImplPass  transcription of FilesComparison.check_strings and helpers   *)
(***************************************************************************)
EXTENDS Naturals, Sequences, FiniteSets, TLC

CONSTANTS Defects
DefectNames == {"GreedyPatternSplit", "MapOverwrite"}

Digits == {"1", "2"}
IsDigit(t) == t \in Digits
Has(l, t) == \E i \in 1..Len(l) : l[i] = t
SeqSet(s) == {s[i] : i \in 1..Len(s)}

RECURSIVE LStrip(_)
LStrip(l) == IF l # <<>> /\ Head(l) = " " THEN LStrip(Tail(l)) ELSE l
RECURSIVE RStrip(_)
RStrip(l) == IF l # <<>> /\ l[Len(l)] = " " THEN RStrip(SubSeq(l, 1, Len(l) - 1)) ELSE l
Norm(l, o) == LET x == IF o.ls THEN LStrip(l) ELSE l IN IF o.rs THEN RStrip(x) ELSE x

RECURSIVE DropRemoved(_, _)
DropRemoved(T, o) == IF T = <<>> THEN <<>>
                     ELSE IF o.rem /\ Has(Head(T), "R") THEN DropRemoved(Tail(T), o)
                     ELSE <<Head(T)>> \o DropRemoved(Tail(T), o)

\* bag (multiset) equality of two sequences of lines
Count(s, x) == Cardinality({i \in 1..Len(s) : s[i] = x})
SameBag(s, t) == Len(s) = Len(t) /\ \A x \in SeqSet(s) \cup SeqSet(t) : Count(s, x) = Count(t, x)

----------------------------------------------------------------------------
(* SPECIFICATION *)

\* a segment is fully matched by a pattern
Letters == {"a", "b"}
FullMatch(p, seg) ==
    CASE p = 1 -> seg # <<>> /\ \A i \in 1..Len(seg) : IsDigit(seg[i])
      [] p = 2 -> Len(seg) >= 2 /\ seg[1] \in Letters /\ \A i \in 2..Len(seg) : IsDigit(seg[i])
\* two lines differ only in parts matched by an ignore-pattern: both split into the same literal
\* text and, at the same places, segments fully matched by one and the same pattern
RECURSIVE PatEq(_, _, _)
PatEq(a, e, P) ==
    \/ a = e
    \/ \E p \in P : \E i1 \in 1..Len(a), i2 \in 1..Len(e) : \E j1 \in i1..Len(a), j2 \in i2..Len(e) :
          /\ FullMatch(p, SubSeq(a, i1, j1)) /\ FullMatch(p, SubSeq(e, i2, j2))
          /\ SubSeq(a, 1, i1 - 1) = SubSeq(e, 1, i2 - 1)         \* literal text before the first matched part
          /\ PatEq(SubSeq(a, j1 + 1, Len(a)), SubSeq(e, j2 + 1, Len(e)), P)

Excused(a, e, o) ==
    \/ Norm(a, o) = Norm(e, o)
    \/ (o.isub /\ Has(e, "I"))
    \/ (o.pats # <<>> /\ PatEq(Norm(a, o), Norm(e, o), SeqSet(o.pats)))

SpecPass(A, E, o) ==
    LET A1 == DropRemoved(A, o)
        E1 == DropRemoved(E, o) IN
    /\ Len(A1) = Len(E1)
    /\ LET U == {i \in 1..Len(A1) : ~Excused(A1[i], E1[i], o)}
           ua == [j \in 1..Cardinality(U) |-> Norm(A1[CHOOSE i \in U : Cardinality({k \in U : k < i}) = j - 1], o)]
           ue == [j \in 1..Cardinality(U) |-> Norm(E1[CHOOSE i \in U : Cardinality({k \in U : k < i}) = j - 1], o)]
       IN U = {} \/ (Cardinality(U) <= o.mpc /\ SameBag(ua, ue))

\* the unexcused positions (indices into the texts after removal) -- used by C15
SpecUnexcused(A, E, o) ==
    LET A1 == DropRemoved(A, o)
        E1 == DropRemoved(E, o) IN
    IF Len(A1) # Len(E1) THEN {} ELSE {i \in 1..Len(A1) : ~Excused(A1[i], E1[i], o)}

\* corners the statement leaves open (DESIGN Appendix A): compared with the transcription only
HasPadding(l) == l # <<>> /\ (Head(l) = " " \/ l[Len(l)] = " ")
Demanded(A, E, o) ==
    \* a trailing empty line is dropped by the code on both sides
    /\ ~(A # <<>> /\ A[Len(A)] = <<>>) /\ ~(E # <<>> /\ E[Len(E)] = <<>>)
    \* permutation allowance and patterns are demanded on lines without blank padding when stripping
    /\ ((o.mpc > 0 \/ o.pats # <<>>) /\ (o.ls \/ o.rs)) =>
          \A i \in 1..Len(A) : ~HasPadding(A[i])
    /\ ((o.mpc > 0 \/ o.pats # <<>>) /\ (o.ls \/ o.rs)) =>
          \A i \in 1..Len(E) : ~HasPadding(E[i])

----------------------------------------------------------------------------
(* TRANSCRIPTION *)

\* re.match of ^(.*?)(p)(.*)$ : the leftmost position where p matches, p taking its maximal match.
\* MatchLen(p, l, i) = number of tokens p matches at position i (0 = no match there)
DigitRun(l, i) == IF i > Len(l) \/ ~IsDigit(l[i]) THEN 0
                  ELSE (CHOOSE j \in i..Len(l) : (\A k \in i..j : IsDigit(l[k])) /\ (j = Len(l) \/ ~IsDigit(l[j + 1]))) - i + 1
MatchLen(p, l, i) == CASE p = 1 -> DigitRun(l, i)
                       [] p = 2 -> IF l[i] \in Letters /\ DigitRun(l, i + 1) > 0 THEN 1 + DigitRun(l, i + 1) ELSE 0
Matches(p, l) == \E i \in 1..Len(l) : MatchLen(p, l, i) > 0
FirstPos(p, l) == CHOOSE i \in 1..Len(l) : MatchLen(p, l, i) > 0 /\ \A j \in 1..(i-1) : MatchLen(p, l, j) = 0
\* the pinned tree used a greedy leading group: the LAST position where p matches, p taking as little as it can
LastPos(p, l) == CHOOSE i \in 1..Len(l) : MatchLen(p, l, i) > 0 /\ \A j \in (i+1)..Len(l) : MatchLen(p, l, j) = 0

\* check_patterns: the patterns are tried in order; the first one that matches both lines and whose
\* left and right remainders are equivalent (recursively, with all patterns) decides
RECURSIVE ImplPat(_, _, _)
RECURSIVE TryFrom(_, _, _, _)
TryFrom(a, e, pats, k) ==
    IF k > Len(pats) THEN FALSE
    ELSE LET p == pats[k] IN
         IF Matches(p, e) /\ Matches(p, a) /\
            (IF "GreedyPatternSplit" \in Defects
             THEN LET pa == LastPos(p, a)  pe == LastPos(p, e) IN
                  /\ ImplPat(SubSeq(a, 1, pa - 1), SubSeq(e, 1, pe - 1), pats)
                  /\ ImplPat(SubSeq(a, pa + MatchLen(p, a, pa), Len(a)), SubSeq(e, pe + MatchLen(p, e, pe), Len(e)), pats)
             ELSE LET pa == FirstPos(p, a)  pe == FirstPos(p, e) IN
                  /\ ImplPat(SubSeq(a, 1, pa - 1), SubSeq(e, 1, pe - 1), pats)
                  /\ ImplPat(SubSeq(a, pa + MatchLen(p, a, pa), Len(a)), SubSeq(e, pe + MatchLen(p, e, pe), Len(e)), pats))
         THEN TRUE
         ELSE TryFrom(a, e, pats, k + 1)
ImplPat(a, e, pats) == a = e \/ TryFrom(a, e, pats, 1)

ImplCanIgnore(a, e, o) == (o.isub /\ Has(e, "I")) \/ ImplPat(a, e, o.pats)

DropTrailingEmpty(T) == IF T # <<>> /\ T[Len(T)] = <<>> THEN SubSeq(T, 1, Len(T) - 1) ELSE T

ImplUnexcused(A, E, o) ==
    LET A0 == DropTrailingEmpty(A)
        E0 == DropTrailingEmpty(E)
        A1 == DropRemoved(A0, o)
        E1 == DropRemoved(E0, o) IN
    IF Len(A1) # Len(E1) THEN {}
    ELSE {i \in 1..Len(A1) : Norm(A1[i], o) # Norm(E1[i], o) /\ ~ImplCanIgnore(A1[i], E1[i], o)}

ImplPass(A, E, o) ==
    LET A0 == DropTrailingEmpty(A)
        E0 == DropTrailingEmpty(E)
        A1 == DropRemoved(A0, o)
        E1 == DropRemoved(E0, o) IN
    IF Len(A1) # Len(E1) THEN FALSE                       \* wrong_number: always a failure
    ELSE LET U == ImplUnexcused(A, E, o)
             ua == [j \in 1..Cardinality(U) |-> A1[CHOOSE i \in U : Cardinality({k \in U : k < i}) = j - 1]]
             ue == [j \in 1..Cardinality(U) |-> E1[CHOOSE i \in U : Cardinality({k \in U : k < i}) = j - 1]]
         IN U = {} \/ (Cardinality(U) <= o.mpc /\ SameBag(ua, ue))   \* permutation compares raw lines


----------------------------------------------------------------------------
(* C15: the post-processed pair of files written on failure.                 *)
(* reconstruct() walks both (normalised) texts with two cursors; a removed   *)
(* or ignored line becomes a marker line that is identical on both sides.    *)
(* Result: a sequence of pairs <<line written to actual-..., line written to  *)
(* expected-...>>; "-" stands for "nothing on this side", M for a marker.     *)

M == <<"*">>
Nothing == <<"-">>
KeptIdx(T, o) == {i \in 1..Len(T) : ~(o.rem /\ Has(T[i], "R"))}           \* original indices that survive removal
NthKept(T, o, k) == CHOOSE i \in KeptIdx(T, o) : Cardinality({j \in KeptIdx(T, o) : j < i}) = k - 1

\* the sets of original line numbers recorded as "ignored" by wrong_content.  The pinned tree fills
\* actual_map from the expected side (MapOverwrite) and leaves expected_map as the identity.
ImplIgnored(A, E, o) ==
    LET A1 == DropRemoved(A, o)
        E1 == DropRemoved(E, o)
        ig == {i \in 1..Len(A1) : Norm(A1[i], o) # Norm(E1[i], o) /\ ImplCanIgnore(A1[i], E1[i], o)} IN
    IF "MapOverwrite" \in Defects /\ o.rem
    THEN [a |-> {NthKept(E, o, i) : i \in ig}, e |-> ig]
    ELSE [a |-> {NthKept(A, o, i) : i \in ig}, e |-> {NthKept(E, o, i) : i \in ig}]

RECURSIVE Rebuild(_, _, _, _, _, _, _, _)
Rebuild(NA, NE, ia, ie, ra, re, iga, ige) ==
    IF ia > Len(NA) /\ ie > Len(NE) THEN <<>>
    ELSE IF ia \in ra /\ ie \in re THEN << <<M, M>> >> \o Rebuild(NA, NE, ia + 1, ie + 1, ra, re, iga, ige)
    ELSE IF ia \in ra THEN << <<M, M>> >> \o Rebuild(NA, NE, ia + 1, ie, ra, re, iga, ige)
    ELSE IF ie \in re THEN << <<M, M>> >> \o Rebuild(NA, NE, ia, ie + 1, ra, re, iga, ige)
    ELSE IF ia > Len(NA) THEN << <<Nothing, NE[ie]>> >> \o Rebuild(NA, NE, ia, ie + 1, ra, re, iga, ige)
    ELSE IF ie > Len(NE) THEN << <<NA[ia], Nothing>> >> \o Rebuild(NA, NE, ia + 1, ie, ra, re, iga, ige)
    ELSE IF NA[ia] = NE[ie] THEN << <<NA[ia], NE[ie]>> >> \o Rebuild(NA, NE, ia + 1, ie + 1, ra, re, iga, ige)
    ELSE IF ia \in iga \/ ie \in ige THEN << <<M, M>> >> \o Rebuild(NA, NE, ia + 1, ie + 1, ra, re, iga, ige)
    ELSE << <<NA[ia], NE[ie]>> >> \o Rebuild(NA, NE, ia + 1, ie + 1, ra, re, iga, ige)

ImplRebuild(A, E, o) ==
    LET A0 == DropTrailingEmpty(A)
        E0 == DropTrailingEmpty(E)
        ig == ImplIgnored(A0, E0, o) IN
    Rebuild([i \in 1..Len(A0) |-> Norm(A0[i], o)], [i \in 1..Len(E0) |-> Norm(E0[i], o)], 1, 1,
            (1..Len(A0)) \ KeptIdx(A0, o), (1..Len(E0)) \ KeptIdx(E0, o), ig.a, ig.e)

\* C15: the two post-processed files differ exactly on the lines where unexcused differences were found
DiffPairs(R) == SelectSeq(R, LAMBDA pr : pr[1] # pr[2])
SpecDiffPairs(A, E, o) ==
    LET A1 == DropRemoved(A, o)
        E1 == DropRemoved(E, o)
        U  == SpecUnexcused(A, E, o) IN
    [j \in 1..Cardinality(U) |->
        LET u == CHOOSE i \in U : Cardinality({k \in U : k < i}) = j - 1 IN <<Norm(A1[u], o), Norm(E1[u], o)>>]
RebuildDemanded(A, E, o) ==
    /\ Demanded(A, E, o)
    /\ Len(DropRemoved(A, o)) = Len(DropRemoved(E, o))          \* different line counts: every line counts as different
    /\ ~SpecPass(A, E, o)
\* "exclusions were in force" (C15): an exclusion did something - a line was dropped, or a pair of differing lines
\* was excused by an ignore-substring / ignore-pattern.  Otherwise the files named by the comparison command are
\* already a pair that differs exactly on the unexcused lines, and no second pair is demanded.
ExclusionsHadEffect(A, E, o) ==
    LET A1 == DropRemoved(A, o)
        E1 == DropRemoved(E, o) IN
    \/ Len(A1) # Len(A) \/ Len(E1) # Len(E)
    \/ (Len(A1) = Len(E1) /\ \E i \in 1..Len(A1) : Norm(A1[i], o) # Norm(E1[i], o) /\ Excused(A1[i], E1[i], o))
RebuildOK(A, E, o) == RebuildDemanded(A, E, o) => DiffPairs(ImplRebuild(A, E, o)) = SpecDiffPairs(A, E, o)

(* binary files: first differing byte offset and lengths *)
BinSpec(a, e) ==
    LET n == IF Len(a) < Len(e) THEN Len(a) ELSE Len(e)
        d == {i \in 1..n : a[i] # e[i]} IN
    [offset |-> IF d = {} THEN n ELSE (CHOOSE i \in d : \A j \in d : i <= j) - 1, alen |-> Len(a), elen |-> Len(e)]
RECURSIVE Scan(_, _, _, _)
Scan(a, e, n, b) == IF b < n /\ a[b + 1] = e[b + 1] THEN Scan(a, e, n, b + 1) ELSE b
BinImpl(a, e) ==
    LET n == IF Len(a) < Len(e) THEN Len(a) ELSE Len(e) IN
    [offset |-> IF SubSeq(a, 1, n) = SubSeq(e, 1, n) THEN n ELSE Scan(a, e, n, 0), alen |-> Len(a), elen |-> Len(e)]

----------------------------------------------------------------------------
(* theorems of the statement *)
IdenticalPasses(A, o) == SpecPass(A, A, o)
=============================================================================
