-------------------------------- MODULE LoadDf --------------------------------
(***************************************************************************)
(* Where load_df (the loader behind the library's file entry points and     *)
(* the command line) takes its description of a CSV file from (C16; also    *)
(* the input side of C17).                                                  *)
(*                                                                         *)
(* A case:                                                                  *)
(*   ext       "csv" | "parquet"           extension of the data file        *)
(*   given     "data" | "mdfile"           the path handed over is the data  *)
(*                                         file, or the CSVW description     *)
(*                                         itself (which names the data)     *)
(*   siblings  set of indices into Suffixes: which candidate metadata files  *)
(*             lie next to the data file                                     *)
(*   mdpath    an explicit description was passed                            *)
(*   ignore    ignore_apparent_metadata                                      *)
(* The answer is the SOURCE of the read_csv arguments:                       *)
(*   "parquet" (none needed) | "explicit" | "sibling" (index FoundIndex) |   *)
(*   "mdfile" | "default".                                                   *)
(***************************************************************************)
EXTENDS Naturals, FiniteSets, Sequences, TLC

CONSTANTS Defects
DefectNames == {"SiblingLoadedFromDataPath", "MetadataFileHasNoDataPath"}

\* find_associated_metadata_file: <stem><suffix>, tried in this order (csvw first)
Suffixes == << "-metadata.json", "-csvmetadata.json", "-csv-metadata.json", ".csvmetadata.json", ".csv-metadata.json",
               ".schema.json", ".schema.yaml", ".resource.json", ".resource.yaml", ".package.json", ".package.yaml" >>
CsvwIndex == 1
FoundIndex(S) == IF S = {} THEN 0 ELSE CHOOSE i \in S : \A j \in S : i <= j

Cases == [ext : {"csv", "parquet"}, given : {"data", "mdfile"}, siblings : SUBSET (1..Len(Suffixes)),
          mdpath : BOOLEAN, ignore : BOOLEAN]
\* handing over the description itself only makes sense for the CSVW file of a CSV file, without a second description
WellFormed(c) == c.given = "mdfile" => (c.ext = "csv" /\ CsvwIndex \in c.siblings /\ ~c.mdpath)

SpecSource(c) ==
    IF c.ext = "parquet" THEN "parquet"
    ELSE IF c.given = "mdfile" THEN "mdfile"
    ELSE IF c.mdpath THEN "explicit"
    ELSE IF c.ignore \/ c.siblings = {} THEN "default"
    ELSE "sibling"
\* documented for the CSVW sibling; which of several non-CSVW candidates wins, and how they are read, is not
Demanded(c) == WellFormed(c) /\ (SpecSource(c) = "sibling" => FoundIndex(c.siblings) = CsvwIndex)

\* transcription of load_df
ImplSource(c) ==
    IF c.ext = "parquet" THEN "parquet"
    ELSE IF c.mdpath THEN "explicit"
    ELSE IF c.given = "mdfile"
         THEN (IF "MetadataFileHasNoDataPath" \in Defects THEN "default" ELSE "mdfile")   \* pinned: the JSON is read as CSV
    ELSE IF c.ignore THEN "default"
    ELSE IF FoundIndex(c.siblings) # 0
         THEN (IF "SiblingLoadedFromDataPath" \in Defects THEN "raises" ELSE "sibling")
    ELSE "default"

ImplIsSpec(c) == Demanded(c) => ImplSource(c) = SpecSource(c)
\* an explicit description always wins; ignoring is total; parquet never consults a description
ExplicitWins(c) == (WellFormed(c) /\ c.ext = "csv" /\ c.mdpath) => SpecSource(c) = "explicit"
=============================================================================
