CONSTANTS
  Defects = {}
  MaxLines = 3
  MaxBytes = 3
  EmitRows = TRUE
INIT Init
NEXT Next
INVARIANT RebuildHolds
INVARIANT BinaryOffsetExact
INVARIANT BinaryShift
INVARIANT EmitCase
CHECK_DEADLOCK FALSE
