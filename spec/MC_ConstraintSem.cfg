CONSTANTS
  StrLen <- MCStrLen
  RexMatch <- MCRexMatch
  Defects = {}
  MaxCells = 3
  EmitRows = FALSE
  ColTypes = {"real", "int", "bool", "date", "string"}
INIT Init
NEXT Next
INVARIANT ImplIsSpec
INVARIANT MissingFails
INVARIANT NullValuedPasses
INVARIANT FlagsImplIsSpec
INVARIANT FlagsExplain
INVARIANT NullsUnflagged
INVARIANT DiscoverImplIsSpec
INVARIANT ClosureHolds
INVARIANT AttainedHolds
INVARIANT EmitCase
CHECK_DEADLOCK FALSE
