----------------------------- MODULE MC_DbSession -----------------------------
EXTENDS DbSession, Json
CONSTANTS MaxCells, EmitRows, ColTypes
VARIABLE col
MCStrLen   == <<0, 1, 1, 2, 3>>
MCRexMatch == <<{1}, {2, 3}, {2, 3, 4, 5}, {4}, {1, 2, 3, 4, 5}>>
Grid(t) == CASE t = "real"   -> {-16, -12, -8, 0, 4, 8, 12, 16}
             [] t = "int"    -> {-16, -8, 0, 8, 16}
             [] t = "bool"   -> {0, 1}
             [] t = "date"   -> {10, 11, 12, 20}
             [] t = "string" -> {1, 2, 3, 4, 5}
Init == /\ \E t \in ColTypes : col = [t |-> t, v |-> <<>>]
        /\ table = col /\ disc = <<>> /\ perturbed = "none" /\ verdicts = {} /\ phase = "created"
Next == /\ Len(col.v) < MaxCells
        /\ \E x \in Grid(col.t) \cup {Null} : col' = [col EXCEPT !.v = Append(@, x)]
        /\ table' = col' /\ UNCHANGED <<disc, perturbed, verdicts, phase>>
ClosureHolds == DbClosure(col)
NoticesHolds == Notices(col)
EmitCase == EmitRows => PrintT(ToJson([col |-> col, disc |-> SpecDiscover(col), dkeys |-> DiscoverDemandedKeys(col),
                                       perturbs |-> Perturbs(col)]))
=============================================================================
