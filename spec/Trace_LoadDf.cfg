CONSTANTS
  Defects = {}
INIT Init
NEXT Next
INVARIANT Judge
POSTCONDITION AllConsumed
CHECK_DEADLOCK FALSE
