---------------------------- MODULE VerifySession ----------------------------
(***************************************************************************)
(* A discover / serialise / load / verify / detect session on one frame     *)
(* (C01; the store forms are also C09's subject).                           *)
(*                                                                         *)
(*   store  where the constraints currently live and in which form:         *)
(*          "none" -> "obj" (DatasetConstraints from discovery)             *)
(*                 -> "dict" (to_dict)  |  "text" (to_json) -> "file"       *)
(*          origin: the frame they were discovered from ("this" / "other")  *)
(*   cache  "cold" | "warm": the verifier's per-column statistics cache;    *)
(*          repair_field_types must run on a cold cache                     *)
(*   res    result of the last verify / detect                              *)
(* The data are abstracted to a single fact per frame, established          *)
(* exhaustively on the value grid by MC_ConstraintSem (ClosureHolds): a     *)
(* constraint set discovered from a frame is satisfied by that frame.       *)
(***************************************************************************)
EXTENDS Naturals, Sequences, FiniteSets, TLC

VARIABLES store, cache, res
vsvars == <<store, cache, res>>

NoRes == [done |-> FALSE, op |-> "none", failures |-> 0, failrecs |-> 0, raised |-> "none"]
VSInit == store = [form |-> "none", origin |-> "none", rex |-> FALSE] /\ cache = "cold" /\ res = NoRes

Discover(rex, origin) ==
    /\ store' = [form |-> "obj", origin |-> origin, rex |-> rex]
    /\ UNCHANGED <<cache, res>>
SerialiseToDict    == store.form = "obj" /\ store' = [store EXCEPT !.form = "dict"] /\ UNCHANGED <<cache, res>>
SerialiseToJson == store.form = "obj" /\ store' = [store EXCEPT !.form = "text"] /\ UNCHANGED <<cache, res>>
WriteFile == store.form = "text" /\ store' = [store EXCEPT !.form = "file"] /\ UNCHANGED <<cache, res>>

\* one verify_df / detect_df call: a fresh verifier (cold cache), optional repair, then the checks
Run(op, repair) ==
    /\ store.form \in {"dict", "file"}
    /\ cache' = "warm"
    /\ res' = [done |-> TRUE, op |-> op, raised |-> "none",
               failures |-> IF store.origin = "this" THEN 0 ELSE res.failures,
               failrecs |-> IF store.origin = "this" THEN 0 ELSE res.failrecs]
    /\ UNCHANGED store
NewCall == cache' = "cold" /\ UNCHANGED <<store, res>>

VSNext == \/ \E rex \in BOOLEAN, o \in {"this", "other"} : Discover(rex, o)
          \/ SerialiseToDict \/ SerialiseToJson \/ WriteFile
          \/ \E op \in {"verify", "detect"}, rp \in BOOLEAN : Run(op, rp)
          \/ NewCall
VSSpec == VSInit /\ [][VSNext]_vsvars

\* C01
Closure == (res.done /\ store.origin = "this") => (res.failures = 0 /\ res.failrecs = 0 /\ res.raised = "none")
=============================================================================
