--------------------------- MODULE MC_DetectSession ---------------------------
EXTENDS DetectSession
\* flags algebra on all 2 x 3 flag matrices
FlagVals == {"T", "F", "N"}
Matrices == [1..2 -> [1..3 -> FlagVals]]
CountsPartition == \A m \in Matrices :
    /\ Cardinality(Failing(m, 3)) + Cardinality((1..3) \ Failing(m, 3)) = 3
    /\ \A i \in 1..3 : (NFailSeq(m, 3)[i] = 0) <=> (i \notin OutRows(m, 3, FALSE))
    /\ OutRows(m, 3, TRUE) = 1..3
ASSUME CountsPartition
=============================================================================
