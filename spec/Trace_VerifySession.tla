------------------------- MODULE Trace_VerifySession -------------------------
(* Recorded discover -> (dict | json -> file) -> verify/detect sessions of    *)
(* the real code on rich frames.  Every line is one call with its observed    *)
(* outcome; the specification's action for that call must be enabled (the     *)
(* store is in the right form) and must produce the observed result.          *)
EXTENDS VerifySession, Json, IOUtils, TLCExt

Tr == ndJsonDeserialize(IOEnv.TRACE_FILE)
VARIABLE l

TraceInit == \E i \in {j \in 1..Len(Tr) : Tr[j].ev = "Init"} : l = i + 1 /\ VSInit
Step(e) == CASE e.ev = "Discover"  -> Discover(e.rex, "this")
             [] e.ev = "ToDict"    -> SerialiseToDict
             [] e.ev = "ToJson"    -> SerialiseToJson
             [] e.ev = "WriteFile" -> WriteFile
             [] e.ev = "Run"       -> Run(e.op, e.repair)   \* (a fresh verifier per call: NewCall is implicit)
TraceNext == l <= Len(Tr) /\ Tr[l].ev # "Init" /\ Step(Tr[l]) /\ l' = l + 1

Bad == IF l = 1 THEN {} ELSE
       LET e == Tr[l-1] IN
       (IF e.ev # "Init" /\ e.raised # "none" THEN {"NoError_" \o e.ev} ELSE {})
       \cup (IF e.ev = "Run" /\ e.raised = "none" /\ e.failures # res.failures THEN {"Closure_" \o e.op} ELSE {})
       \cup (IF e.ev = "Run" /\ e.raised = "none" /\ e.failrecs # res.failrecs THEN {"DetectClosure"} ELSE {})
Conforms == Bad = {} \/ PrintT(ToJson([line |-> l - 1, tid |-> Tr[l-1].tid, bad |-> Bad]))
Consumed == PrintT(ToJson([consumed |-> TLCGet("distinct"), lines |-> Len(Tr)]))
=============================================================================
