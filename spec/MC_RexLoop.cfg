CONSTANTS
  ParamSpace <- MCParams
  Defects = {}
SPECIFICATION Spec
INVARIANT TypeOK
INVARIANT Covered
INVARIANT SeededOnly
INVARIANT PrngRestored
INVARIANT AttemptBound
PROPERTY Terminates
CHECK_DEADLOCK FALSE
