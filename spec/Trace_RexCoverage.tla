--------------------------- MODULE Trace_RexCoverage ---------------------------
(* One line per real Extractor: the match matrix of its returned expressions    *)
(* over its examples (computed by the harness with Python's re), the            *)
(* frequencies, and the figures the object reported.  The specification's       *)
(* variables are bound to the logged matrix and the reported result sequence;   *)
(* C18's clauses are then evaluated with the specification's own operators.     *)
EXTENDS RexCoverage, Json, IOUtils, TLCExt

Tr == ndJsonDeserialize(IOEnv.TRACE_FILE)
VARIABLE l

Bind(e) == /\ Mx = [p \in 1..Len(e.mx) |-> [x \in 1..Len(e.freq) |-> e.mx[p][x]]]
           /\ freq = [x \in 1..Len(e.freq) |-> e.freq[x]]
           /\ dedup = e.dedup
           /\ results = e.res
           /\ alive = {} /\ pc = "done"
TraceInit == l = 1 /\ Bind(Tr[1])
TraceNext == /\ l < Len(Tr) /\ l' = l + 1
             /\ Mx' = [p \in 1..Len(Tr[l+1].mx) |-> [x \in 1..Len(Tr[l+1].freq) |-> Tr[l+1].mx[p][x]]]
             /\ freq' = [x \in 1..Len(Tr[l+1].freq) |-> Tr[l+1].freq[x]]
             /\ dedup' = Tr[l+1].dedup /\ results' = Tr[l+1].res /\ alive' = {} /\ pc' = "done"

Bad == LET e == Tr[l] IN
    (IF e.ncov = NP THEN {} ELSE {"CoverageOnePerExpression"})
    \cup (IF \A p \in P : e.cov[p] = (IF e.covdedup THEN Cardinality(Matched(p)) ELSE Weight(Matched(p))) THEN {} ELSE {"CoverageExact"})
    \cup (IF CoverageExact(results) THEN {} ELSE {"IncrementalTotalsExact"})
    \cup (IF CreditedOnce(results) THEN {} ELSE {"CreditedOnce"})
    \cup (IF NonIncreasing(results) THEN {} ELSE {"NonIncreasing"})
    \cup (IF ListedOnce(results) THEN {} ELSE {"ListedOnce"})
    \cup (IF OmittedExplainNothingNew(results) THEN {} ELSE {"OmittedExplainNothingNew"})
    \cup (IF SumsToCovered(results) THEN {} ELSE {"SumsToCovered"})
    \cup (IF e.allmatched => (SumSeq(results, "incr") = e.supplied /\ SumSeq(results, "incruniq") = e.supplieduniq)
          THEN {} ELSE {"SumsToTotalExamples"})
    \cup (IF e.nexamples = e.supplied /\ e.nexamplesuniq = e.supplieduniq THEN {} ELSE {"NExamplesIsSupplied"})
    \* incremental_coverage() is the same listing reduced to the newly explained counts
    \cup (IF e.incrview = [i \in 1..Len(results) |-> IF e.dedup THEN results[i].incruniq ELSE results[i].incr]
          THEN {} ELSE {"IncrementalViewIsTheFullListing"})
Judge == Bad = {} \/ PrintT(ToJson([line |-> l, tid |-> Tr[l].tid, bad |-> Bad]))
AllConsumed == PrintT(ToJson([consumed |-> TLCGet("stats").diameter, lines |-> Len(Tr)]))
=============================================================================
