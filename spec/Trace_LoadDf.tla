----------------------------- MODULE Trace_LoadDf -----------------------------
(* One line per real load_df call on real files (data file names with dots, upper-case extensions,       *)
(* directories with dots, decoy siblings); the observed source is read off the dtypes of the loaded frame. *)
EXTENDS LoadDf, Json, IOUtils, TLCExt
Tr == ndJsonDeserialize(IOEnv.TRACE_FILE)
VARIABLE l
Init == l = 1
Next == l <= Len(Tr) /\ l' = l + 1
ToSet(s) == {s[i] : i \in 1..Len(s)}
CaseOf(e) == [ext |-> e.ext, given |-> e.given, siblings |-> ToSet(e.siblings), mdpath |-> e.mdpath, ignore |-> e.ignore]
Bad(e) == LET c == CaseOf(e) IN
          IF ~Demanded(c) THEN {}
          ELSE (IF e.observed = "raises" THEN {"LoadsWithoutError"} ELSE {})
               \cup (IF e.observed # "raises" /\ e.observed # SpecSource(c) THEN {"DescriptionComesFrom_" \o SpecSource(c)} ELSE {})
               \cup (IF e.found = FoundIndex(c.siblings) THEN {} ELSE {"AssociatedFileIsFirstCandidate"})
Judge == l <= Len(Tr) => LET b == Bad(Tr[l]) IN b = {} \/ PrintT(ToJson([line |-> l, tid |-> Tr[l].tid, bad |-> b]))
AllConsumed == PrintT(ToJson([consumed |-> TLCGet("stats").diameter - 1, lines |-> Len(Tr)]))
=============================================================================
