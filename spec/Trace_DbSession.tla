---------------------------- MODULE Trace_DbSession ----------------------------
(* Recorded SQLite sessions: CreateTable, Discover, Verify, AddRow(kind), Verify. *)
EXTENDS DbSession, Json, IOUtils, TLCExt
Tr == ndJsonDeserialize(IOEnv.TRACE_FILE)
TrEmpty == <<>>
VARIABLE l
ToSet(s) == {s[i] : i \in 1..Len(s)}
TraceInit == \E i \in {j \in 1..Len(Tr) : Tr[j].ev = "Init"} : l = i + 1 /\ DbInit
TrStep(e) == CASE e.ev = "Discover" -> DbDiscover
             [] e.ev = "Verify"   -> DbVerify(ToSet(e.failed))
             [] e.ev = "AddRow"   -> DbAddRow(e.kind)
TraceNext == l <= Len(Tr) /\ Tr[l].ev # "Init" /\ Tr[l].raised = "none" /\ TrStep(Tr[l]) /\ l' = l + 1
Bad == (IF l <= Len(Tr) /\ Tr[l].ev # "Init" /\ Tr[l].raised # "none" THEN {"NoError_" \o Tr[l].ev} ELSE {})
       \cup (IF SessionClosure THEN {} ELSE {"DbClosure"})
       \cup (IF SessionNotices THEN {} ELSE {"Notices_" \o perturbed})
Conforms == Bad = {} \/ PrintT(ToJson([line |-> IF l > 1 THEN l - 1 ELSE 1, tid |-> Tr[IF l > 1 THEN l - 1 ELSE 1].tid, bad |-> Bad, at |-> l]))
Consumed == PrintT(ToJson([consumed |-> TLCGet("distinct"), lines |-> Len(Tr)]))
=============================================================================
