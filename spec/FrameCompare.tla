----------------------------- MODULE FrameCompare -----------------------------
(***************************************************************************)
(* DataFrame comparison of reference tests (C05; PandasComparison.          *)
(* check_dataframe).  A frame is a sequence of columns                       *)
(*     [n |-> name, t |-> dtype name, v |-> sequence of cells]               *)
(* A cell is an integer or Null.  For float columns the integer is the       *)
(* value in units of 10^-4 (so rounding to p places is exact arithmetic);    *)
(* for the other dtypes it is the value (or a string / instant id).          *)
(* Options o = [ct, cd, co, cx : flags (all / none / a list of names),        *)
(*              sortby : "none" | a name, cond : "none" | "nonneg",          *)
(*              prec : 0..4, tm : "strict" | "medium" | "permissive"]        *)
(***************************************************************************)
EXTENDS Integers, Sequences, FiniteSets, TLC

Null == -9999
Names(f) == {f[i].n : i \in 1..Len(f)}
Col(f, n) == f[CHOOSE i \in 1..Len(f) : f[i].n = n]
NRows(f) == IF f = <<>> THEN 0 ELSE Len(f[1].v)
\* a flag is [mode |-> "all" | "none" | "list", cols |-> set of names]
Resolve(flag, f) == IF flag.mode = "all" THEN Names(f) ELSE IF flag.mode = "none" THEN {} ELSE flag.cols

\* ---- type matching levels (loosen_type / types_match) ----
Loose(t) == CASE t \in {"int64", "Int64", "int32"} -> "int" [] t \in {"float64", "Float64", "float32"} -> "float"
              [] t \in {"bool", "boolean"} -> "bool" [] t \in {"datetime64[ns]", "datetime64[us]"} -> "datetime"
              [] t = "category" -> "string"            \* categoricals are compared as strings
              [] OTHER -> t                            \* object, str, string
Canon(t) == IF t = "category" THEN "string" ELSE t
TypesMatch(t1, t2, level) ==
    LET a == Canon(t1)  b == Canon(t2) IN
    IF level = "strict" \/ a = b THEN a = b
    ELSE LET la == Loose(a)  lb == Loose(b)
             objlike == {"string", "boolean", "datetime", "bool"} IN
         \/ la = lb
         \/ (la = "object" /\ lb \in objlike) \/ (lb = "object" /\ la \in objlike)
         \/ (level = "permissive" /\ la \in {"bool", "int", "float"} /\ lb \in {"bool", "int", "float"})

\* ---- values ----
Pow10(k) == CASE k = 0 -> 1 [] k = 1 -> 10 [] k = 2 -> 100 [] k = 3 -> 1000 [] k = 4 -> 10000
\* round a float cell (units of 10^-4, never on a tie) to p decimal places
RoundP(v, p) == IF v = Null THEN Null
                ELSE LET u == Pow10(4 - p) IN
                     IF v >= 0 THEN ((v + u \div 2) \div u) * u ELSE 0 - (((0 - v) + u \div 2) \div u) * u
Numeric(t) == Loose(t) \in {"int", "float", "bool"}
\* the value of a cell in units of 10^-4 (numeric dtypes)
Units(t, v) == IF v = Null THEN Null ELSE IF Loose(t) = "float" THEN v ELSE v * 10000
\* a cell of the actual column (dtype ta) against a cell of the reference column (dtype tr)
CellEq(ta, tr, a, b, p) ==
    IF Numeric(ta) /\ Numeric(tr)
    THEN (IF (Loose(ta) = "float" \/ Loose(tr) = "float") /\ p < 4
          THEN RoundP(Units(ta, a), p) = RoundP(Units(tr, b), p) ELSE Units(ta, a) = Units(tr, b))
    ELSE a = b

\* ---- rows: condition and sort ----
\* the condition of the model keeps the rows whose cell in column "a" is non-null and not negative
Keep(f, o) == IF o.cond = "none" \/ "a" \notin Names(f) THEN 1..NRows(f)
              ELSE {i \in 1..NRows(f) : Col(f, "a").v[i] # Null /\ Col(f, "a").v[i] >= 0}
\* the kept row numbers in comparison order: by the sort key if any (keys are distinct and non-null by
\* construction), else by position
RowOrder(f, o) ==
    LET K == Keep(f, o)
        key(i) == IF o.sortby = "none" \/ o.sortby \notin Names(f) THEN i ELSE Col(f, o.sortby).v[i] IN
    [j \in 1..Cardinality(K) |-> CHOOSE i \in K : Cardinality({x \in K : key(x) < key(i)}) = j - 1]

\* ---- SPECIFICATION ----
RelOrder(f, S) == SelectSeq([i \in 1..Len(f) |-> f[i].n], LAMBDA n : n \in S)
SpecEqual(df, ref, o) ==
    LET T == Resolve(o.ct, ref)
        X == Resolve(o.cx, df)
        O == Resolve(o.co, ref)
        D == Resolve(o.cd, ref)
        ra == RowOrder(df, o)
        rr == RowOrder(ref, o) IN
    /\ T \subseteq Names(df)                                                    \* same columns (checked ones present)
    /\ \A n \in T : TypesMatch(Col(df, n).t, Col(ref, n).t, o.tm)               \* types at the requested level
    /\ X \subseteq Names(ref)                                                    \* no unexpected extra columns
    /\ RelOrder(df, O \cap Names(ref)) = RelOrder(ref, O \cap Names(df))         \* relative order
    /\ Len(ra) = Len(rr)                                                         \* rows after condition and sort
    /\ \A n \in D \cap Names(df) \cap Names(ref) :
          \A j \in 1..Len(ra) : CellEq(Col(df, n).t, Col(ref, n).t, Col(df, n).v[ra[j]], Col(ref, n).v[rr[j]], o.prec)
    /\ D \subseteq Names(df)

\* what the statement leaves open (compared with the transcription only):
\* the data check of a column that the type check was told to skip and that is missing
Demanded(df, ref, o) ==
    /\ Resolve(o.cd, ref) \subseteq (Names(df) \cup Resolve(o.ct, ref))
    /\ (o.sortby # "none" => o.sortby \in Names(df) \cap Names(ref))
    \* values of columns whose kinds differ (say datetime against object) with the type check off
    /\ (\A n \in Resolve(o.cd, ref) \cap Names(df) \cap Names(ref) :
          ((Loose(Col(df, n).t) = Loose(Col(ref, n).t)) \/ (Numeric(Col(df, n).t) /\ Numeric(Col(ref, n).t))))

\* ---- TRANSCRIPTION of check_dataframe ----
ImplOutcome(df, ref, o) ==
    LET T == Resolve(o.ct, ref)
        X == Resolve(o.cx, df)
        missing == T \ Names(df)
        wrongTypes == {n \in T \cap Names(df) : ~TypesMatch(Col(df, n).t, Col(ref, n).t, o.tm)}
        extra == X \ Names(ref)
        O == Resolve(o.co, ref)
        wrongOrder == IF o.co.mode # "none" /\ missing = {}
                      THEN RelOrder(df, O \cap Names(ref)) # RelOrder(ref, O \cap Names(df)) ELSE FALSE
        structOK == missing = {} /\ extra = {} /\ wrongTypes = {} /\ ~wrongOrder
        ra == RowOrder(df, o)
        rr == RowOrder(ref, o)
        D == Resolve(o.cd, ref) \ missing IN
    IF ~structOK \/ Len(ra) # Len(rr) THEN "fail"
    ELSE IF ~(D \subseteq Names(df)) THEN "error"            \* df[cols] raises KeyError
    ELSE IF \A n \in D : \A j \in 1..Len(ra) : CellEq(Col(df, n).t, Col(ref, n).t, Col(df, n).v[ra[j]], Col(ref, n).v[rr[j]], o.prec)
         THEN "pass" ELSE "fail"
SpecOutcome(df, ref, o) == IF SpecEqual(df, ref, o) THEN "pass" ELSE "fail"
=============================================================================
