CONSTANTS
  Insts = {"i1", "i2"}
  Kinds = {"k1"}
  Dirs = {"dA", "dB"}
  Names = {"n1"}
  Contents = {"c1", "c2"}
INIT MCInit
NEXT LNext
CONSTRAINT Bound
PROPERTY OnlyOwnReference
PROPERTY InstancesIndependent
INVARIANT RegenThenPass
CHECK_DEADLOCK FALSE
