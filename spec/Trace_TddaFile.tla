---------------------------- MODULE Trace_TddaFile ----------------------------
(* Recorded write / load cycles of real constraint sets.  The session state   *)
(* is the number of completed cycles; every line carries the facts the        *)
(* harness measured on the real text and objects, and the specification       *)
(* requires them (C09).                                                       *)
EXTENDS Naturals, Sequences, FiniteSets, TLC, Json, IOUtils, TLCExt

Tr == ndJsonDeserialize(IOEnv.TRACE_FILE)
VARIABLES l, form, cycle      \* form: "none" | "obj" | "text"; cycle: completed write/load cycles

TraceInit == \E i \in {j \in 1..Len(Tr) : Tr[j].ev = "Init"} : l = i + 1 /\ form = "none" /\ cycle = 0
Step(e) ==
    CASE e.ev = "LoadDict" -> form = "none" /\ form' = "obj" /\ UNCHANGED cycle
      [] e.ev = "Write"    -> form = "obj" /\ e.cycle = cycle /\ form' = "text" /\ UNCHANGED cycle
      [] e.ev = "LoadPath" -> form = "text" /\ e.cycle = cycle /\ form' = "obj" /\ cycle' = cycle + 1
      [] e.ev = "Neutral"  -> UNCHANGED <<form, cycle>>
TraceNext == l <= Len(Tr) /\ Tr[l].ev # "Init" /\ Tr[l].raised = "none" /\ Step(Tr[l]) /\ l' = l + 1

\* judged on the line about to be consumed (so that lines that raised are judged too)
Bad == IF l > Len(Tr) \/ Tr[l].ev = "Init" THEN {} ELSE
       LET e == Tr[l] IN
       (IF e.raised # "none" THEN {"NoError_" \o e.ev} ELSE {})
       \cup (IF e.ev = "Write" /\ e.raised = "none" THEN
                (IF e.utf8 THEN {} ELSE {"ValidUtf8"})
                \cup (IF e.validjson THEN {} ELSE {"ValidJson"})
                \cup (IF e.notrail THEN {} ELSE {"NoTrailingWhitespace"})
                \cup (IF e.sametext THEN {} ELSE {"Fixpoint"})
             ELSE {})
       \cup (IF e.ev = "LoadPath" /\ e.raised = "none" THEN
                (IF e.sameobj THEN {} ELSE {"LoadedObjectSerialisesTheSame"})
                \cup (IF e.sameverdicts THEN {} ELSE {"SameVerdicts"})
                \cup (IF e.samemeta THEN {} ELSE {"MetadataPreserved"})
             ELSE {})
       \cup (IF e.ev = "LoadDict" /\ e.raised = "none" THEN
                (IF e.dictintact THEN {} ELSE {"CallerDictionaryLeftAlone"})
                \cup (IF e.reloadsame THEN {} ELSE {"SameDictionarySameResult"})
                \cup (IF e.samemeta THEN {} ELSE {"MetadataPreserved"})
             ELSE {})
       \cup (IF e.ev = "Neutral" /\ e.raised = "none" THEN
                (IF e.neutral THEN {} ELSE {"UnknownNeutral"})
                \cup (IF e.orderfree THEN {} ELSE {"OrderFree"})
             ELSE {})
Conforms == Bad = {} \/ PrintT(ToJson([line |-> l, tid |-> Tr[l].tid, bad |-> Bad]))
Consumed == PrintT(ToJson([consumed |-> TLCGet("distinct"), lines |-> Len(Tr)]))
=============================================================================
