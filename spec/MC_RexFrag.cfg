CONSTANTS
  Defects = {}
  MaxClasses = 3
  EmitRows = FALSE
INIT Init
NEXT Next
INVARIANT Sound
INVARIANT EmitCase
CHECK_DEADLOCK FALSE
