------------------------------ MODULE MC_RexFrag ------------------------------
EXTENDS RexFrag, Json
CONSTANTS MaxClasses, EmitRows
VARIABLE S
Init == S = {}
Next == Cardinality(S) < MaxClasses /\ \E c \in ClassIds : c \notin S /\ (\A b \in S : b < c) /\ S' = S \cup {c}

Modes == {"general", "fine"}
Sound == \A x \in Extras, d \in Dialects, m \in Modes : FragSound(S, x, d, m)
EmitCase == (EmitRows /\ S # {}) =>
    PrintT(ToJson([S |-> S,
                   res |-> {[x |-> x, d |-> d, m |-> m, same |-> SameCoarse(S, x), sound |-> FragSound(S, x, d, m)] :
                            x \in Extras, d \in Dialects, m \in Modes}]))
=============================================================================
